"""One-off tool: turn /tmp/harvest.json (see harvest_plugin.py) plus hand-written families into the
frozen corpus /verif/dsim/corpus/corpus.json.  Not used by any registered check; the checks read
only the committed corpus.  Run with PYTHONHASHSEED=0 /venv/bin/python tools/build_corpus.py
"""
import json, os, random, re, sys, collections

sys.path.insert(0, os.environ.get('VERIF_REPO', '/repo'))
sys.path.insert(0, os.path.join(os.path.dirname(os.path.abspath(__file__)), '..'))
from mindsdb_sql import parse_sql, get_lexer_parser  # noqa
from dsim import ops as O  # noqa

rng = random.Random(20240924)
import gzip
_hp = os.environ.get('HARVEST') or os.path.join(os.path.dirname(os.path.abspath(__file__)), 'harvest.json.gz')
H = json.load(gzip.open(_hp, 'rt') if _hp.endswith('.gz') else open(_hp))


def stem(msg):
    first = msg.split('\n')[0]
    first = re.sub(r'\d+', 'N', first)
    return first[:60]


def outcome(dialect, sql):
    try:
        ast = parse_sql(sql, dialect=dialect)
        return 'ok:' + type(ast).__name__
    except Exception as e:
        return 'err:%s:%s' % (type(e).__name__, stem(str(e)))


# ------------------------------------------------------------------ parse ops (stratified)
by_class = collections.defaultdict(list)
for d, s, o in sorted(H['parse']):
    by_class[(d, outcome(d, s))].append(s)

parse_ops = []
strata = {}
for (d, oc), lst in sorted(by_class.items()):
    cap = 40 if oc == 'ok:Select' else (10 if oc.startswith('ok:') else 5)
    lst = sorted(set(lst))
    rng.shuffle(lst)
    for s in lst[:cap]:
        parse_ops.append({'k': 'parse', 'd': d, 'sql': s})
    strata['%s|%s' % (d, oc)] = min(cap, len(lst))

# ------------------------------------------------------------------ mutations of accepted statements
BASE = [
    "select a, b as c from t1 where a > 1 and b in (1, 2, 3) group by a having count(*) > 1 order by a desc limit 10 offset 2",
    "select * from int.tab1 t1 left join int2.tab2 t2 on t1.a = t2.a where t1.x between 1 and 5",
    "select case when a = 1 then 'x' when a = 2 then 'y' else 'z' end, cast(b as int), -c from t",
    "with cte1 as (select a from t where b = 1) select a from cte1 union all select a from t2",
    "insert into int.t (a, b, c) values (1, 'x', null), (2, 'y', 3.5)",
    "update t set a = 1, b = 'x' where c = 3",
    "delete from t where a = 1 and b not in (select x from t2)",
    "create table int.t (a int, b text)",
    "create table int.t2 as select * from int.t where a = 1",
    "drop table if exists a.b",
    "show databases",
    "show full tables from db like 'x%'",
    "set names utf8",
    "set autocommit = 1",
    "use my_db",
    "describe t.x",
    "explain select 1",
    "start transaction",
    "commit",
    "select count(distinct a), sum(b) over (partition by c order by d) from t",
    "select a from t where b like '%x%' or c is not null and not d = 1",
    "select t.`a b`, \"quoted\", 'str''q' from `my db`.t",
    "select * from t where a = (select max(b) from t2 where t2.c = t.c)",
    "select substring(a from 1 for 3), trim(b) from t",
    "select a from t1 intersect select a from t2 except select a from t3",
    "select * from t limit 5",
    "select 1",
    "select @@version, @x, database()",
    "alter table t disable keys",
]
MDB_BASE = [
    "create model mindsdb.pred from int (select * from t where a = 1) predict b using engine='x', tag = 1",
    "create predictor pred from int (select * from t) predict b order by d window 10 horizon 5",
    "create database db with engine = 'mysql', parameters = {\"user\": \"root\", \"port\": 3306}",
    "create view v as (select * from int.t)",
    "create job j (select 1; select 2) start '2023-01-01' end '2024-01-01' every 2 hours",
    "retrain mindsdb.pred from int (select * from t) using a = 1",
    "finetune mindsdb.pred from int (select * from t)",
    "drop model mindsdb.pred",
    "drop predictor if exists pred",
    "select * from int (select a, 'x''y' from t where b = \"q\") as n",
    "select t.a, m.p from int.t as t join mindsdb.pred as m where t.a > latest",
    "evaluate accuracy from (select * from t) using a = 1",
    "create ml_engine e from h using k = 'v'",
    "create chatbot c using model = 'm', database = 'd'",
    "create knowledge_base kb using model = m, storage = s.t",
    "create trigger tr on db.t (select 1)",
    "create agent a using model = 'm', skills = ['s']",
    "show models from p where name = 'x'",
    "insert into mindsdb.pred (select * from int.t)",
]


def lex_spans(dialect, sql):
    lexer, _ = get_lexer_parser(dialect)
    spans = []
    for t in lexer.tokenize(sql):
        spans.append((t.index, t.end))
    return spans


def lex_number_starts(dialect, sql):
    lexer, _ = get_lexer_parser(dialect)
    return [t.index for t in lexer.tokenize(sql) if t.type in ('INTEGER', 'FLOAT')]


mut_ops_by_class = collections.defaultdict(list)
for d in ('sqlite', 'mysql', 'mindsdb'):
    base = BASE + (MDB_BASE if d == 'mindsdb' else [])
    for sql in base:
        try:
            spans = lex_spans(d, sql)
        except Exception:
            continue
        cands = set()
        for k, (a, b) in enumerate(spans):
            cands.add(sql[:b])                                  # truncate after token k
            cands.add(sql[:a] + sql[b:])                        # drop token k
            cands.add(sql[:b] + ' ' + sql[a:b] + sql[b:])       # double token k
            cands.add(sql[:a] + 'foo ' + sql[a:])               # insert an identifier before token k
            cands.add(sql[:a] + 'by ' + sql[a:])                # insert a keyword before token k
            cands.add(sql[:a] + '7 ' + sql[a:])                 # insert a number before token k
        try:
            for a_ in lex_number_starts(d, sql):
                cands.add(sql[:a_] + '-' + sql[a_:])            # a sign in front of a number
        except Exception:
            pass
        for m in sorted(cands):
            if not m.strip():
                continue
            mut_ops_by_class[(d, outcome(d, m))].append(m)
mut_ops = []
for (d, oc), lst in sorted(mut_ops_by_class.items()):
    lst = sorted(set(lst))
    rng.shuffle(lst)
    cap = 4 if oc.startswith('ok:') else 10
    for s in lst[:cap]:
        mut_ops.append({'k': 'parse', 'd': d, 'sql': s})
    strata['mut|%s|%s' % (d, oc)] = min(cap, len(lst))

# ------------------------------------------------------------------ error-state collision families
# rejected inputs grouped by what the error reporter sees apart from the surrounding text: dialect, the set of expected
# tokens (i.e. the parser state) and the type of the offending token.  Members of one group differ only in context.
def err_state(dialect, sql):
    lexer, parser = get_lexer_parser(dialect)
    try:
        ast = parser.parse(lexer.tokenize(re.sub(r'[\s;]+$', '', sql)))
    except Exception:
        return None
    if ast is not None:
        return None
    info = getattr(parser, 'error_info', None)
    if not info:
        return None
    bt = info.get('bad_token')
    return (dialect, tuple(sorted(info.get('expected_tokens') or [])), bt.type if bt is not None else None)


def last_line(dialect, sql):
    try:
        parse_sql(sql, dialect=dialect)
    except Exception as e:
        return str(e).split('\n')[-1]
    return ''


errstate = collections.defaultdict(list)
for (d, oc), lst in sorted(mut_ops_by_class.items()):
    if not oc.startswith('err:'):
        continue
    for m in sorted(set(lst)):
        st = err_state(d, m)
        if st is not None and st[2] is not None and 1 < len(st[1]) < 40:
            errstate[st].append(m)
errstate_fams = {}
for i, (st, lst) in enumerate(sorted(errstate.items(), key=lambda kv: (-len(kv[1]), kv[0]))):
    by_line = collections.defaultdict(list)
    for m in lst:
        by_line[last_line(st[0], m)].append(m)
    if len(by_line) < 2:
        continue
    members = []
    for line, ms in sorted(by_line.items()):
        rng.shuffle(ms)
        members += ms[:3]
    errstate_fams['errstate_%02d' % len(errstate_fams)] = [{'k': 'parse', 'd': st[0], 'sql': m} for m in members[:10]]
    if len(errstate_fams) >= 60:
        break

# ------------------------------------------------------------------ dialect-differential inputs
# texts that one dialect accepts and another rejects (or parses to another class): the inputs most sensitive to one
# dialect's grammar leaking into another's
dd = []
_texts = sorted({m for lst in mut_ops_by_class.values() for m in lst} | set(BASE) | {s_ for (d_, s_, o_) in H['parse'] if o_.startswith('ok')})
rng.shuffle(_texts)
for t_ in _texts[:1500]:
    oc = {d_: outcome(d_, t_).split(':')[0:2] for d_ in ('mindsdb', 'mysql', 'sqlite')}
    if len({tuple(v) for v in oc.values()}) > 1:
        dd.append(t_)
    if len(dd) >= 45:
        break
dd += ["select a from t limit -1", "select a from t limit 2 offset -2", "select a from t where b = -1 limit -1", "select -1", "select a from t limit -1, 2"]
dialect_diff_ops = [{'k': 'parse', 'd': d_, 'sql': t_} for t_ in dd for d_ in ('mindsdb', 'mysql', 'sqlite')]

# ------------------------------------------------------------------ hand-written malformed inputs
MALFORMED = [
    "", " ", ";", "select", "select from", "select * from", "select * frm t", "selct 1", "select 1 1",
    "select # from t", "select a from t where", "select a from t where a = ", "select $ from t",
    "select a ~ b from t", "select 'unterminated from t", "select \"unterminated from t", "select `a from t",
    "select a from t where a = 1 and", "select (a from t", "select a) from t", "select a,, b from t",
    "insert into t values", "insert into t (a) values (1", "update t set", "update t set a = ", "delete from",
    "create table", "create model", "create model m predict", "drop", "show", "use", "set", "describe",
    "select * from t where a in ()", "select * from t order by", "select * from t group by", "select * from t limit",
    "select * from t limit a", "select * from t1 join", "select * from t1 join t2 on", "select \x00 from t",
    "select é from t", "select a from t; select b from t", "select a from t where a = 1 order by a group by a",
    "select a from t group by by a having count(*) > 1 order by a", "select a from from t", "select a from t where where a = 1",
    "select a from t limit 1 limit 2", "select distinct distinct a from t", "with as (select 1) select 1", "select case when then end",
    "select cast(a as) from t", "select a from t union", "select a from t union all", "create database", "create database d with",
    "create database d engine", "create view v as", "create view v as (select", "retrain", "finetune x from",
    "select * from t where a between 1", "select * from t where a between 1 and", "select * from t where a not", "select * from t where a is",
    "select * from t where a like", "select 1 +", "select 1 + * 2", "select (((1", "select 1)))", "select * from (select * from t",
    "select * from int (select * from t", "select * from int (select * from t)) x", "select @@", "select @", "select ?,", "select ? ?",
]
mal_ops = []
for d in ('sqlite', 'mysql', 'mindsdb'):
    for s in MALFORMED:
        mal_ops.append({'k': 'parse', 'd': d, 'sql': s})

# ------------------------------------------------------------------ catalogs and plan ops
catalogs = {}
cat_ids = {}


def cat_id(cat):
    k = json.dumps(cat, sort_keys=True)
    if k not in cat_ids:
        cid = 'c%02d' % len(cat_ids)
        cat_ids[k] = cid
        catalogs[cid] = cat
    return cat_ids[k]


plan_ops = []
seen = set()
for p in H['plan']:
    d, sql = p['sql']
    cid = cat_id(p['catalog'])
    op = {'k': 'plan', 'd': d, 'sql': sql, 'cat': cid}
    if O.op_key(op) in seen:
        continue
    seen.add(O.op_key(op))
    plan_ops.append(op)

# hand-written collision families -------------------------------------------------------------
families = {}


def fam(name, ops):
    families[name] = ops


META_PRED = [{'name': 'pred'}, {'name': 'other'}]
META_PRED_TS = [{'name': 'pred'}, {'name': 'tp3', 'timeseries': True, 'order_by_column': 'pickup_hour',
                                   'group_by_columns': ['vendor_id'], 'window': 10, 'horizon': 3}]
cA = cat_id({'integrations': ['int', 'int2'], 'predictor_namespace': 'mindsdb', 'predictor_metadata': META_PRED, 'default_namespace': None})
cB = cat_id({'integrations': ['int', 'int2'], 'predictor_namespace': 'proj2', 'predictor_metadata': META_PRED, 'default_namespace': 'proj2'})
cC = cat_id({'integrations': ['int', 'int2'], 'predictor_namespace': 'mindsdb', 'predictor_metadata': META_PRED, 'default_namespace': 'mindsdb'})
cD = cat_id({'integrations': ['int', {'name': 'proj2', 'type': 'project'}], 'predictor_namespace': 'MindsDB', 'predictor_metadata': META_PRED, 'default_namespace': 'int'})
cL = cat_id({'integrations': ['int'], 'predictor_namespace': 'mindsdb', 'predictor_metadata': {'pred': {}, 'other': {}}, 'default_namespace': None})
cL2 = cat_id({'integrations': ['int'], 'predictor_namespace': 'proj2', 'predictor_metadata': {'pred': {}, 'other': {}}, 'default_namespace': 'proj2'})
cTS = cat_id({'integrations': ['mysql', 'int'], 'predictor_namespace': 'mindsdb', 'predictor_metadata': META_PRED_TS, 'default_namespace': 'mindsdb'})
cAPI = cat_id({'integrations': [{'name': 'int', 'class_type': 'api', 'type': 'data'}, {'name': 'int2', 'class_type': 'sql', 'type': 'data'}],
               'predictor_namespace': 'mindsdb', 'predictor_metadata': META_PRED, 'default_namespace': None})


def P(sql, cid):
    return {'k': 'plan', 'd': 'mindsdb', 'sql': sql, 'cat': cid}


fam('pred_spelling', [
    P("select * from mindsdb.pred.3 where x = 1", cA),
    P("select * from mindsdb.pred where x = 1", cA),
    P("select * from mindsdb.PRED where x = 2", cA),
    P("select * from mindsdb.pred.12 where x = 1 and y = 'a'", cA),
    P("select * from pred where x = 1", cC),
    P("select * from pred.7 where x = 1", cC),
    P("select * from Pred where x = 1", cC),
    P("select * from pred where x = 1", cB),
    P("select * from proj2.pred.5 where x = 1", cB),
    P("select * from proj2.pred where x = 1", cD),
    P("select * from mindsdb.other.2 where z = 3", cA),
    P("select * from mindsdb.other where z = 3", cA),
    P("select * from mindsdb.pred where x = 1", cL),
    P("select * from mindsdb.pred.9 where x = 1", cL),
    P("select * from pred where x = 1", cL2),
    P("select * from pred.4 where x = 1", cL2),
    P("select t.a, m.p from int.tab1 t join mindsdb.pred m", cA),
    P("select t.a, m.p from int.tab1 t join mindsdb.pred.3 m", cA),
    P("select t.a, m.p from int.tab1 t join mindsdb.PRED.8 as m where t.x > 1", cA),
    P("select t.a, m.p from int.tab1 t join pred m", cC),
    P("select t.a, m.p from int.tab1 t join pred.2 m", cC),
    P("select t.a, m.p from int.tab1 t join pred m", cB),
    P("select * from mindsdb.pred where 1 = 0", cA),
    P("select * from mindsdb.pred.3 where 1 = 0", cA),
    # columns qualified by the model's name or alias (the planner strips the qualifier that matches the model reference)
    P("select * from mindsdb.pred as p1 where p1.x = 1 and p1.y = 2", cA),
    P("select p1.x, p1.p from mindsdb.pred as p1 where p1.x = 1", cA),
    P("select * from mindsdb.other as o where o.z = 3 and o.w = 'q'", cA),
    P("select * from mindsdb.pred where pred.x = 1 and pred.y = 2", cA),
    P("select * from mindsdb.other where other.z = 3", cA),
    P("select * from pred as pp where pp.x = 1", cC),
    P("select * from mindsdb.pred.3 as v3 where v3.x = 1", cA),
])
fam('join_tables', [
    P("select * from int.tab1 t1 join int2.tab2 t2 on t1.a = t2.a", cA),
    P("select t1.a, t2.b from int.tab1 t1 left join int2.tab2 t2 on t1.a = t2.a where t1.x = 1 and t2.y > 2 limit 5", cA),
    P("select * from int.tab1 t1 join int.tab2 t2 on t1.a = t2.a", cA),
    P("select * from int.tab1 t1 join int2.tab2 t2 on t1.a = t2.a join int.tab3 t3 on t3.a = t1.a", cA),
    P("select * from int.tab1 t1 join (select * from int2.tab2 where x = 1) t2 on t1.a = t2.a", cA),
    P("select * from (select * from int.tab1) t1 join (select * from int2.tab2) t2 on t1.a = t2.a", cA),
    P("select * from int.tab1 t1 join int2.tab2 t2 on t1.a = t2.a", cAPI),
    P("select * from int.tab1 where a in (select b from int2.tab2)", cA),
    P("select * from int.tab1 where a in (select b from int2.tab2)", cAPI),
    P("select * from int.tab1 where a = 1 order by b limit 3", cAPI),
    P("with c as (select * from int.tab1) select * from c join int2.tab2 t2 on c.a = t2.a", cA),
    P("select * from int.tab1 union select * from int2.tab2", cA),
])
fam('ts_pred', [
    P("select * from mysql.data.ny_output as ta join mindsdb.tp3 as tb where ta.pickup_hour > latest and ta.vendor_id = 1", cTS),
    P("select * from mysql.data.ny_output as ta join mindsdb.tp3 as tb where ta.pickup_hour > 10 and ta.vendor_id = 1", cTS),
    P("select * from mysql.data.ny_output as ta join mindsdb.tp3.4 as tb where ta.pickup_hour between 1 and 10 and ta.vendor_id = 1", cTS),
    P("select * from mysql.data.ny_output as ta join tp3 as tb where ta.pickup_hour > latest", cTS),
    P("select * from mysql.data.ny_output as ta join mindsdb.pred as tb", cTS),
    P("select * from mysql.data.ny_output as ta join mindsdb.tp3 as tb where ta.pickup_hour < 5 limit 2", cTS),
])
fam('dml', [
    P("insert into int.t (a, b) values (1, 'x')", cA),
    P("insert into int.t (a, b) select a, b from int2.t2", cA),
    P("update int.t set a = 1 where b = 2", cA),
    P("update int.t set a = df.a from (select * from int2.t2) as df where t.b = df.b", cA),
    P("delete from int.t where a = 1", cA),
    P("delete from int.t where a in (select b from int2.t2)", cA),
    P("create table int.t2 (select * from int2.t where a = 1)", cA),
    P("create or replace table int.t2 (select * from int.t)", cA),
    P("create table int.t3 (a int, b text)", cA),
    P("select * from int.t", cA),
])
plan_err = [
    P("select * from tab1", cA),
    P("select * from mindsdb.pred", cA),
    P("select * from mindsdb.pred where x > 1", cA),
    P("select * from mindsdb.pred where x = 1 group by x", cA),
    P("select a from", cA),
    P("show tables", cA),
    P("select * from mindsdb.pred m join int.tab1 t", cA),
]
cTS2 = cat_id({'integrations': ['mysql', 'int'], 'predictor_namespace': 'mindsdb', 'default_namespace': 'mindsdb',
               'predictor_metadata': [{'name': 'tp3', 'timeseries': True, 'order_by_column': 'pickup_hour',
                                       'group_by_columns': ['vendor_id', 'zone', 'kind', 'day_type'], 'window': 10, 'horizon': 3},
                                      {'name': 'tp4', 'timeseries': True, 'order_by_column': 'ts', 'group_by_columns': None, 'window': 5}]})
plan_err += [
    P("select * from mysql.data.ny_output as ta join mindsdb.tp3 as tb where ta.fare_amount = 1 and ta.pickup_hour > latest", cTS2),
    P("select * from mysql.data.ny_output as ta join mindsdb.tp3 as tb where ta.pickup_hour > latest and ta.tip like 'x'", cTS2),
    P("select * from mysql.data.ny_output as ta join mindsdb.tp3 as tb where ta.pickup_hour > 1 and ta.pickup_hour > 2 and ta.pickup_hour < 9", cTS2),
    P("select * from mysql.data.ny_output as ta join mindsdb.tp3 as tb where pickup_hour > latest", cTS2),
    P("select * from mysql.data.ny_output as ta join mindsdb.tp3 as tb where ta.pickup_hour > latest order by ta.pickup_hour", cTS2),
    P("select * from mysql.data.ny_output as ta join mindsdb.tp3 as tb where ta.pickup_hour > latest group by ta.vendor_id", cTS2),
    P("select * from mindsdb.tp3 as ta join mindsdb.tp4 as tb where ta.pickup_hour > latest", cTS2),
    P("select * from mysql.data.ny_output as ta join mindsdb.tp3 as tb where ta.pickup_hour > latest and ta.vendor_id = 1 and ta.zone = 'a'", cTS2),
    P("select * from mysql.data.ny_output as ta join mindsdb.tp4 as tb where ta.ts > latest", cTS2),
    P("select * from mysql.data.ny_output as ta join mindsdb.tp4 as tb where ta.other = 3", cTS2),
    P("select * from mindsdb.pred where x = 1 and x = 2", cA),
    P("select * from mindsdb.pred where x = 1 or y = 2", cA),
    P("select * from mindsdb.pred where x = y", cA),
    P("select x + 1 from mindsdb.pred where x = 1", cA),
    P("select * from mindsdb.pred where x = 1 having x > 1", cA),
    P("select * from nowhere.tab1 t1 join int2.tab2 t2 on t1.a = t2.a", cA),
    P("select * from tab1 t1 join int2.tab2 t2 on t1.a = t2.a", cA),
    P("select * from int.tab1 t1 join int2.tab2 t2 on t1.a = t2.a where t3.x = 1", cA),
    P("select * from int.tab1 t1 join (select * from int2.tab2) on t1.a = 1", cA),
    P("select * from int.tab1 t1 join int2.tab2 t2 on t9.a = t2.a", cA),
    P("create table int.t3", cA),
    P("drop table int.t3", cA),
    P("select * from mindsdb.pred m join mindsdb.other o", cA),
    P("select * from mindsdb.pred m join int.tab1 t join int2.tab2 t2", cA),
]
fam('plan_errors', plan_err)

# the caller edits its catalog IN PLACE between calls: variants 'X+eN' of catalog X are the same list objects with other content
cE = 'cE'
catalogs[cE] = {'integrations': ['int', 'int2'], 'predictor_namespace': 'mindsdb', 'default_namespace': None,
                'predictor_metadata': [{'name': 'pred'}, {'name': 'tsm', 'timeseries': False}]}
catalogs[cE + '+e1'] = {'integrations': ['int', 'int2'], 'predictor_namespace': 'mindsdb', 'default_namespace': None,
                        'predictor_metadata': [{'name': 'pred'}, {'name': 'tsm', 'timeseries': False}, {'name': 'newmodel'}]}
catalogs[cE + '+e2'] = {'integrations': ['int', 'int2'], 'predictor_namespace': 'mindsdb', 'default_namespace': None,
                        'predictor_metadata': [{'name': 'pred'}, {'name': 'tsm', 'timeseries': True, 'order_by_column': 'ts', 'group_by_columns': ['g'], 'window': 5}]}
catalogs[cE + '+e3'] = {'integrations': ['int', 'int2', 'int3'], 'predictor_namespace': 'mindsdb', 'default_namespace': None,
                        'predictor_metadata': [{'name': 'pred'}, {'name': 'tsm', 'timeseries': False}]}
catalogs[cE + '+e4'] = {'integrations': ['int'], 'predictor_namespace': 'mindsdb', 'default_namespace': 'int',
                        'predictor_metadata': [{'name': 'tsm', 'timeseries': False}]}
EDIT_SQL = ["select * from mindsdb.newmodel where x = 1", "select t.a, m.p from int.tab1 t join mindsdb.newmodel m", "select * from int3.tab9 where a = 1",
            "select * from int.tab1 t1 join int3.tab9 t9 on t1.a = t9.a", "select * from int.tab1 t join mindsdb.tsm m where t.ts > latest and t.g = 1",
            "select * from mindsdb.pred where x = 1", "select * from int2.tab2 where a in (select b from int3.tab9)", "select * from tab1 where a = 1"]
fam('catalog_edits', [P(q_, cid_) for cid_ in (cE, cE + '+e1', cE + '+e2', cE + '+e3', cE + '+e4') for q_ in EDIT_SQL])

# same identifier, different role in different catalogs: 'sales' is a project, a data integration, an api integration,
# a schema under the default integration, the predictor namespace, or unknown
ROLE_OPS = ["select * from sales.orders", "select * from sales.orders where a = 1", "select o.a from sales.orders o join int.tab1 t on o.id = t.id",
            "select * from int.tab1 t join sales.orders o on o.id = t.id where o.x > 1", "select * from sales.pred where x = 1",
            "select t.a, m.p from int.tab1 t join sales.pred m", "insert into sales.orders (a) values (1)", "delete from sales.orders where a = 1",
            "select * from int.tab1 where a in (select b from sales.orders)", "select * from orders"]
ROLE_CATS = [
    {'integrations': ['int', {'name': 'sales', 'type': 'project'}], 'predictor_namespace': 'mindsdb', 'predictor_metadata': [{'name': 'pred', 'integration_name': 'sales'}], 'default_namespace': None},
    {'integrations': ['int', 'sales'], 'predictor_namespace': 'mindsdb', 'predictor_metadata': [{'name': 'pred'}], 'default_namespace': None},
    {'integrations': ['int', {'name': 'sales', 'type': 'data', 'class_type': 'api'}], 'predictor_namespace': 'mindsdb', 'predictor_metadata': [{'name': 'pred'}], 'default_namespace': None},
    {'integrations': ['int'], 'predictor_namespace': 'mindsdb', 'predictor_metadata': [{'name': 'pred'}], 'default_namespace': 'int'},
    {'integrations': ['int'], 'predictor_namespace': 'sales', 'predictor_metadata': [{'name': 'pred'}], 'default_namespace': 'int'},
    {'integrations': ['int'], 'predictor_namespace': 'mindsdb', 'predictor_metadata': [{'name': 'pred'}], 'default_namespace': None},
    {'integrations': ['int', {'name': 'Sales', 'type': 'project'}], 'predictor_namespace': 'mindsdb', 'predictor_metadata': [], 'default_namespace': 'sales'},
]
fam('name_roles', [P(sql_, cat_id(cat_)) for cat_ in ROLE_CATS for sql_ in ROLE_OPS])
# same identifier as a CTE name in one query and as an ordinary table (default integration) in another
cDEF = cat_id({'integrations': ['int', 'int2'], 'predictor_namespace': 'mindsdb', 'predictor_metadata': [{'name': 'pred'}], 'default_namespace': 'int'})
fam('name_roles_cte', [P(q_, cDEF) for q_ in [
    "with tab1 as (select * from int2.other where a = 1) select * from tab1", "select * from tab1", "select a, b from tab1 where a > 2 limit 3",
    "with tab1 as (select 1 as a) select * from tab1 join int2.tab2 t2 on tab1.a = t2.a", "select * from tab1 t1 join int2.tab2 t2 on t1.a = t2.a",
    "with x as (select * from int2.t where b = 2), tab2 as (select * from x) select * from tab2", "select * from tab2 where c = 1", "select * from x",
    "select * from int.tab1 where a in (select a from x)", "with tab1 as (select * from tab2) select * from tab1 union select * from tab2"]])

# ------------------------------------------------------------------ render ops
rnd_by = collections.defaultdict(list)
for rd, d, sql, fb in sorted(H['render']):
    oc = outcome(d, sql)
    rnd_by[(rd, oc)].append({'k': 'render', 'd': d, 'sql': sql, 'rd': rd, 'fb': fb})
render_ops = []
for key, lst in sorted(rnd_by.items()):
    rng.shuffle(lst)
    render_ops.extend(lst[:25])
RENDER_EXTRA = [
    "select a, b from t where c = 'x''y' and d = 1.5 limit 3",
    "select t1.a from t1 join t2 on t1.a = t2.a left join t3 on t3.b = t1.b",
    "select interval '1 day' from t", "select a from t where d > now() - interval '2 hour'",
    "insert into t (a, b) values (1, 'x'), (2, null)", "update t set a = 1, b = 'q' where c > 2",
    "delete from t where a = 1", "create table t (id serial, a int, b text, c float default 1)",
    "create table a.t (id serial primary key, x varchar(10))", "drop table if exists a.t, b",
    "create table t2 (id serial, name text)", "create table int.t3 (k serial, v int, w varchar(5))",
    "select cast(a as float), cast(b as varchar(10)) from t", "select case when a > 1 then 'x' else 'y' end as r from t",
    "select count(distinct a), max(b) from t group by c having max(b) > 1 order by 1 desc",
    "select * from t1 union select * from t2", "select * from t1 union all select * from t2 intersect select * from t3",
    "with c as (select 1 as a) select * from c", "select * from (select a from t) as s where s.a in (1, 2)",
    "select a from t where b is null and c is not null and d not in (1, 2)", "select current_date, current_user, CURRENT_TIMESTAMP",
    "select a from t where b like 'x%' and c between 1 and 2", "select -a, not b, a % 2, a || b from t",
    "select row_number() over (partition by a order by b) from t", "select 'a\\b', \"d\" from t",
    "select * from t limit 5 offset 3", "select distinct a from t", "select a as `my col` from `my table`",
    "select * from a.b.c.d", "select max(a) filter (where b > 1) from t", "select t.* from t",
    "select a from t1 as x join t2 as x on 1 = 1", "select exists (select 1 from t)", "select 1 where not exists (select 1 from t)",
    "select last from t", "select * from t where a > latest",
]
for rd in ('mysql', 'postgresql', 'sqlite', 'mssql', 'oracle'):
    for s in RENDER_EXTRA:
        for fb in (True, False):
            render_ops.append({'k': 'render', 'd': 'mindsdb', 'sql': s, 'rd': rd, 'fb': fb})
RENDER_WP = ["insert into t (a, b) values (1, 'x'), (2, null)", "insert into a.t (a, b, c) values (1.0, true, 'q')", "insert into t (a) values (1)",
             "insert into t (a, b) select a, b from t2", "select a from t where b = 1 and c = 1.0 and d = true", "select 0, 0.0, false, 1, 1.0, true from t",
             "update t set a = 1.0 where b = 1", "delete from t where a = true or b = 1 or c = 1.0", "select a from t where b in (1, 1.0, 2, 2.0)"]
for rd in ('mysql', 'postgresql', 'sqlite', 'mssql', 'oracle', 'postgres', 'Snowflake'):
    for s_ in RENDER_WP:
        render_ops.append({'k': 'render', 'd': 'mindsdb', 'sql': s_, 'rd': rd, 'fb': True, 'wp': True})
        render_ops.append({'k': 'render', 'd': 'mindsdb', 'sql': s_, 'rd': rd, 'fb': False})
fam('render_kinds', [o for o in render_ops if o['sql'] in RENDER_EXTRA and o['rd'] in ('mysql', 'postgresql')])
# LIMIT / OFFSET with and without ORDER BY, star and explicit select lists (dialects emulate these very differently)
OFFS = ["select * from t order by a limit 5 offset 3", "select a, b from t order by a limit 5 offset 3", "select t.* from t order by a offset 3", "select a from t order by a limit 5",
        "select * from t limit 5 offset 3", "select a, b from t where c = 1 order by b desc limit 2 offset 1", "select * from t order by a limit 5", "select a from t offset 2"]
off_ops = [{'k': 'render', 'd': 'mindsdb', 'sql': q_, 'rd': rd, 'fb': fb} for rd in ('mysql', 'postgresql', 'sqlite', 'mssql', 'oracle') for q_ in OFFS
           for fb in (True, False) if outcome('mindsdb', q_).startswith('ok')]
render_ops.extend(off_ops)
for rd in ('mysql', 'postgresql', 'sqlite', 'mssql', 'oracle'):
    fam('render_offsets_' + rd, [o for o in off_ops if o['rd'] == rd])
# every type name the renderer knows, in CAST and in CREATE TABLE, for every dialect name
import sqlalchemy as _sa
_tnames = sorted({k.upper() for k, v in _sa.types.__dict__.items() if hasattr(v, '__module__')
                  and v.__module__ in ('sqlalchemy.sql.sqltypes', 'sqlalchemy.sql.type_api')} | {'BOOL', 'INT', 'INT8', 'FLOAT8'})
type_ops = []
for i, tn in enumerate(_tnames):
    if outcome('mindsdb', 'select cast(a as %s) from t' % tn).startswith('ok'):
        for rd in ('mysql', 'postgresql', 'sqlite', 'mssql', 'oracle', 'postgres', 'Snowflake'):
            type_ops.append({'k': 'render', 'd': 'mindsdb', 'sql': 'select cast(a as %s) from t' % tn, 'rd': rd, 'fb': bool(i % 2)})
    if outcome('mindsdb', 'create table t (a %s, b int)' % tn).startswith('ok'):
        for rd in ('mysql', 'postgresql', 'sqlite', 'mssql', 'oracle'):
            type_ops.append({'k': 'render', 'd': 'mindsdb', 'sql': 'create table t (a %s, b int)' % tn, 'rd': rd, 'fb': bool(i % 2)})
render_ops.extend(type_ops)
for rd in ('mysql', 'postgresql', 'sqlite', 'mssql', 'oracle', 'postgres', 'Snowflake'):
    fam('render_types_' + rd, [o for o in type_ops if o['rd'] == rd])
# every operator / expression kind of the renderer once, for every dialect name
EXPRS = ["a = b", "a != b", "a <> b", "a > b", "a < b", "a >= b", "a <= b", "a is null", "a is not null", "a is true", "a like 'x%'", "a not like 'x%'",
         "a in (1, 2)", "a not in (1, 2)", "a in (select b from t2)", "a || b", "a and b", "a or b", "a + b", "a - b", "a * b", "a / b", "a % b", "a div b",
         "not a", "-a", "a between 1 and 2", "a not between 1 and 2", "case when a then 1 else 2 end", "case a when 1 then 'x' end", "exists (select 1 from t2)",
         "not exists (select 1 from t2)", "cast(a as int)", "count(*)", "count(distinct a)", "coalesce(a, b, 1)", "substring(a from 1)", "substring(a from 1 for 2)",
         "sum(a) over (partition by b order by c)", "(select max(b) from t2)", "(a, b) in ((1, 2))", "a = (1 + 2) * 3", "interval '1 day'", "a > now() - interval '2 hour'",
         "current_date", "last", "'it''s'", "1.5e0", "true", "null", "-1", "\"d q\"", "`b t`"]
expr_ops = []
for i, e_ in enumerate(EXPRS):
    sql_ = 'select %s as r from t' % e_
    if not outcome('mindsdb', sql_).startswith('ok'):
        sql_ = 'select %s from t' % e_
        if not outcome('mindsdb', sql_).startswith('ok'):
            continue
    for rd in ('mysql', 'postgresql', 'sqlite', 'mssql', 'oracle', 'postgres', 'Snowflake'):
        expr_ops.append({'k': 'render', 'd': 'mindsdb', 'sql': sql_, 'rd': rd, 'fb': bool(i % 2)})
        expr_ops.append({'k': 'render', 'd': 'mindsdb', 'sql': 'select * from t where ' + e_, 'rd': rd, 'fb': bool((i + 1) % 2)}) if outcome('mindsdb', 'select * from t where ' + e_).startswith('ok') else None
render_ops.extend(expr_ops)
for rd in ('mysql', 'postgresql', 'sqlite', 'mssql', 'oracle', 'postgres', 'Snowflake'):
    fam('render_exprs_' + rd, [o for o in expr_ops if o['rd'] == rd])
# function calls as operands: how SQLAlchemy spells an operator depends on the types of its operands ('+' between strings is
# concatenation, '/' between integers is integer division), and the type of a function call comes from SQLAlchemy's registry
# of known functions -- process-wide data that the renderer's modules may add to
FUNCS = ["length(a)", "ifnull(a, b)", "ceil(a)", "lower(a)", "upper(a)", "char_length(a)", "round(a, 2)", "abs(a)", "floor(a)", "nullif(a, b)",
         "concat(a, b)", "now()", "coalesce(a, b)", "count(a)", "sum(a)", "avg(a)", "max(a)", "len(a)", "isnull(a, b)", "nvl(a, b)", "trim(a)",
         "replace(a, 'x', 'y')", "date_format(a, '%Y')", "my_udf(a)", "json_extract(a, '$.k')", "random()", "mod(a, 2)", "power(a, 2)", "sqrt(a)", "left(a, 2)"]
FUNC_CTX = ["%s + '1'", "%s / 2", "%s || 'x'"]
func_ops = []
for i, f_ in enumerate(FUNCS):
    for j, cx_ in enumerate(FUNC_CTX):
        sql_ = 'select %s as r from t' % (cx_ % f_)
        if not outcome('mindsdb', sql_).startswith('ok'):
            continue
        for rd in ('mysql', 'postgresql', 'sqlite', 'mssql', 'oracle'):
            func_ops.append({'k': 'render', 'd': 'mindsdb', 'sql': sql_, 'rd': rd, 'fb': bool((i + j) % 2)})
render_ops.extend(func_ops)
for rd in ('mysql', 'postgresql', 'sqlite', 'mssql', 'oracle'):
    fam('render_funcs_' + rd, [o for o in func_ops if o['rd'] == rd])
# both forms of naming a dialect to the renderer: by name and by SQLAlchemy dialect class; statements whose text depends on
# the per-name tweaks of the constructor (mysql float cast, mssql multi-row insert) next to ordinary ones
FORMS_SQL = ["select cast(a as float) from t1", "insert into t (a, b) values (1, 'x'), (2, 'y')", "select a from t where b = 1 limit 2",
             "select cast(a as int8), cast(b as varchar(5)) from t", "create table t (a int, b text)", "select a from t where d > now() - interval '2 hour'"]
form_ops = []
for nm in ('mysql', 'mssql', 'postgresql', 'oracle', 'sqlite'):
    for sql_ in FORMS_SQL:
        for fb in (True, False):
            form_ops.append({'k': 'render', 'd': 'mindsdb', 'sql': sql_, 'rd': nm, 'fb': fb})
            form_ops.append({'k': 'render', 'd': 'mindsdb', 'sql': sql_, 'rd': 'cls:' + nm, 'fb': fb})
render_ops.extend(form_ops)
# a caller-defined dialect class that shares its name with a stock one
custom_ops = []
for sql_ in FORMS_SQL + ["select a from t limit 5", "select a from t order by b limit 2 offset 3", "select 1"]:
    for rd in ('postgresql', 'cls:custom_pg', 'postgres', 'cls:postgresql'):
        custom_ops.append({'k': 'render', 'd': 'mindsdb', 'sql': sql_, 'rd': rd, 'fb': True})
render_ops.extend(custom_ops)
fam('render_custom_dialect', custom_ops)
for nm in ('mysql', 'mssql', 'postgresql', 'oracle', 'sqlite'):
    fam('render_forms_' + nm, [o for o in form_ops if o['rd'] in (nm, 'cls:' + nm)])

# length boundaries: string literals, identifiers and aliases around the identifier limits of the dialects (63/64, 128/129, 255/256)
long_ops = []
for n_ in (63, 64, 65, 128, 129, 130, 255, 256, 300):
    lit = 'x' * n_
    for sql_ in ["select '%s' from t" % lit, "select '%s' as a, b from t where c = '%s'" % (lit, lit), "select %s from t" % lit, "select a as %s from t" % lit,
                 "select a from %s" % lit, "insert into t (a) values ('%s')" % lit]:
        long_ops.append({'k': 'parse', 'd': 'mindsdb', 'sql': sql_})
        for rd in ('mysql', 'postgresql', 'sqlite', 'mssql', 'oracle'):
            long_ops.append({'k': 'render', 'd': 'mindsdb', 'sql': sql_, 'rd': rd, 'fb': bool(n_ % 2)})
render_ops_long = long_ops
for rd in ('mysql', 'postgresql', 'sqlite', 'mssql', 'oracle'):
    fam('long_tokens_' + rd, [o for o in long_ops if o.get('rd', rd) == rd])

# renders that FAIL (and fall back, or raise) at every nesting level, next to statements that are sensitive to renderer state
FAILS = ["select * from a.b.c.d", "select * from (select * from db1.sch.tbl.x) as s", "with c as (select * from db1.sch.tbl.x) select * from c",
         "select * from t where a in (select b from db1.sch.tbl.x)", "select * from t1 join (select * from db1.sch.tbl.x) as s on t1.a = s.a",
         "select * from (select * from t union select * from db1.sch.tbl.x) as u", "select a as `x y`.z from t", "select a from t1 as x join t2 as x on 1 = 1",
         "insert into t values (1, 2)", "select * from t where a in b", "select (select * from db1.sch.tbl.x) from t", "select native_query from int (select 1)"]
SENSITIVE = ["select count(a), count(b) from t", "select 1, 1", "select max(a), max(b), min(a) from t group by c", "select a, a from t",
             "select * from (select count(a), count(b) from t) as s", "with c as (select 1, 1) select * from c", "select `x y` from t", "select t.`a b` as `c d` from `e f` as t"]
fail_ops = []
for rd in ('mysql', 'postgresql', 'sqlite', 'mssql', 'oracle'):
    for sql_ in FAILS + SENSITIVE:
        if outcome('mindsdb', sql_).startswith('ok'):
            for fb in (True, False):
                fail_ops.append({'k': 'render', 'd': 'mindsdb', 'sql': sql_, 'rd': rd, 'fb': fb})
render_ops.extend(fail_ops)
for rd in ('mysql', 'postgresql', 'sqlite', 'mssql', 'oracle'):
    fam('render_failures_' + rd, [o for o in fail_ops if o['rd'] == rd])

# the same leaf (literal / star / keyword-like identifier) plain, aliased and parenthesised, in every dialect
LEAVES = ['null', 'true', 'false', '1', "'x'", 'a', '*', 'last', 'current_date', '1.5']
leaf_ops = []
for lf in LEAVES:
    forms = ['select %s from t' % lf, 'select %s as missing from t' % lf, 'select (%s) from t' % lf, 'select (%s) as p, %s from t' % (lf, lf),
             'select coalesce(a, %s) from t where b is %s' % (lf, lf) if lf in ('null', 'true', 'false') else 'select coalesce(a, %s) from t where b = %s' % (lf, lf),
             'select * from t where a = %s or a = (%s)' % (lf, lf)]
    for sql_ in forms:
        for d_ in ('mindsdb', 'mysql', 'sqlite'):
            if outcome(d_, sql_).startswith('ok'):
                leaf_ops.append({'k': 'parse', 'd': d_, 'sql': sql_})
        if outcome('mindsdb', sql_).startswith('ok'):
            leaf_ops.append({'k': 'render', 'd': 'mindsdb', 'sql': sql_, 'rd': 'mysql', 'fb': True})
            leaf_ops.append(P(sql_.replace(' from t', ' from int.t'), cA))
fam('leaf_decorations', leaf_ops)
leaf_pool = leaf_ops
# trees built by the caller (not obtainable from parse_sql): plain inserts with and without separated parameters
built_ops = []
for rd in ('mysql', 'postgresql', 'sqlite', 'mssql', 'oracle'):
    for nm in ('insert_plain_1', 'insert_plain_2', 'insert_plain_3', 'insert_consts', 'select_built'):
        for wp in (True, False):
            o_ = {'k': 'render', 'd': 'mindsdb', 'sql': '<built:%s>' % nm, 'ast': nm, 'rd': rd, 'fb': True}
            if wp:
                o_['wp'] = True
            built_ops.append(o_)
render_ops.extend(built_ops)
for rd in ('mysql', 'postgresql', 'sqlite', 'mssql', 'oracle'):
    fam('render_built_' + rd, [o for o in built_ops if o['rd'] == rd])
# names and constants that look like the markup of a later stage: format specifiers (%, %s, %(x)s), bind-parameter markers (:p, ?, $1),
# braces, quotes, backslashes, non-ASCII.  Every stage that quotes, escapes or substitutes (the renderer's identifier preparer, the
# literal compiler, the plain-insert parameter path) treats them specially, and whatever it remembers about them is remembered for
# the next statement too.  Same odd name in every statement kind, per dialect, parsed and caller-built, with and without parameters.
ODD_NAMES = ['growth%', 'a b', '%s', '%(x)s', ':p', 'q?', '$1', '{x}', "it's", 'x\\y', 'Üñí', 'a"b', '100%%', 'sel-ect']
markup_ops = []
for rd in ('mysql', 'postgresql', 'sqlite', 'mssql', 'oracle'):
    fam_ops_ = []
    for i_, nm_ in enumerate(ODD_NAMES):
        q_ = '`%s`' % nm_
        lit_ = "'%s'" % nm_.replace("'", "''").replace('\\', '\\\\')
        stmts_ = ["select %s, b from t1 where %s > 1" % (q_, q_), "select a as %s from `t %s` where c = %s" % (q_, nm_, lit_),
                  "insert into t1 (%s, b) values (1, %s)" % (q_, lit_), "update t1 set %s = 2 where b = %s" % (q_, lit_),
                  "delete from t1 where %s = %s" % (q_, lit_)]
        for j_, sql_ in enumerate(stmts_):
            if (i_ + j_) % 2 == 0 or rd in ('mysql', 'postgresql'):
                if outcome('mindsdb', sql_).startswith('ok'):
                    fam_ops_.append({'k': 'render', 'd': 'mindsdb', 'sql': sql_, 'rd': rd, 'fb': True})
        for wp_ in (True, False):
            o_ = {'k': 'render', 'd': 'mindsdb', 'sql': '<built:insert_plainq_%d>' % i_, 'ast': 'insert_plainq_%d' % i_, 'rd': rd, 'fb': True}
            if wp_:
                o_['wp'] = True
            fam_ops_.append(o_)
    fam('markup_names_' + rd, fam_ops_)
    markup_ops += fam_ops_
render_ops.extend(markup_ops)
# the two alias names of the renderer's dialect table next to the dialects they map to
fam('render_aliases', [o for o in render_ops if o['sql'] in RENDER_WP and o['rd'] in ('oracle', 'Snowflake', 'postgres', 'postgresql')])
for rd in ('mysql', 'postgresql', 'sqlite', 'mssql', 'oracle'):
    fam('render_values_' + rd, [o for o in render_ops if o['sql'] in RENDER_WP and o['rd'] == rd])

# ------------------------------------------------------------------ reserved-word family
fam('reserved_words', [
    {'k': 'parse', 'd': d, 'sql': s} for d in ('mindsdb', 'mysql', 'sqlite') for s in [
        "select `select`, `from` from `table`", "select a.`where`, b.`group` from `order` as `limit`",
        "select * from t as `as`", "select `x y`, plain, `UPPER` from `db`.`t t`", "select status, names, view, model from t",
        "select `status`, `predict` from `model`",
    ]
])
for _n, _ops in errstate_fams.items():
    fam(_n, _ops)
# statements with '?' placeholders: parsed, planned (the planner edits the tree it is given) and parsed again
PH = ["select * from int.tab1 where id = ? and name <> 'a'", "select a, ? from int.tab1 where b in (?, ?)", "insert into int.t (a, b) values (?, ?)",
      "update int.t set a = ? where b = ?", "delete from int.t where a = ?", "select * from mindsdb.pred where x = ?",
      "select t.a, m.p from int.tab1 t join mindsdb.pred m where t.x > ?", "select * from int.tab1 t1 join int2.tab2 t2 on t1.a = t2.a where t1.b = ?"]
fam('placeholders', [x for q_ in PH for x in (
    {'k': 'parse', 'd': 'mindsdb', 'sql': q_}, {'k': 'parse', 'd': 'mysql', 'sql': q_}, P(q_, cA),
    {'k': 'flow', 'd': 'mindsdb', 'sql': q_, 'cat': cA, 'rd': 'mysql'}, {'k': 'render', 'd': 'mindsdb', 'sql': q_, 'rd': 'postgresql', 'fb': True})])
fam('dialect_diff', dialect_diff_ops)

# raw (native) queries: their productions are generated from a set of all tokens, the part of the grammar whose construction
# order depends on the hash seed; raw texts that start with every kind of token, in every statement that embeds one
RAW_BODIES = ["tbl", "tbl, other", "a b c", "db.coll.find({\"a\": 1})", "select * from t where a = 1", "1 + 2", "'text' and more", "show tables",
              "a, b", "from x select y", "(nested (parens)) tail", "* from t", "?", "x = ? and y = ?", "create table t (a int)", "`q` \"dq\""]
RAW_FORMS = ["create view v from int1 (%s)", "create view v (%s)", "create view v as (%s)", "select * from int1 (%s)", "select * from int1 (%s) as n where n.a = 1",
             "create model m from int1 (%s) predict x", "retrain m from int1 (%s)", "create job j (%s)", "create trigger tr on db.t (%s)", "evaluate acc from (%s)"]
raw_ops = []
for f_ in RAW_FORMS:
    for b_ in RAW_BODIES:
        raw_ops.append({'k': 'parse', 'd': 'mindsdb', 'sql': f_ % b_})
fam('raw_queries', raw_ops)

# deep / long inputs: long AND/OR chains, deep parentheses, long IN lists, many UNION branches.  Kept only if the outcome
# (a plan, or RecursionError) is the same under recursion limits 0.7x and 1.4x the default, i.e. far from the edge, so that
# the few frames by which a client thread's stack differs from the reference child's cannot flip it.
import sys as _sys


def _chain(n, op_):
    return (' %s ' % op_).join('t1.c%d = %d' % (i, i) for i in range(n))


DEEP = []
for n_ in (40, 90, 260):
    DEEP.append("select * from int.tab1 t1 join int2.tab2 t2 on t1.a = t2.a where " + _chain(n_, 'or'))
    DEEP.append("select t1.a, m.p from int.tab1 t1 join mindsdb.pred m where " + _chain(n_, 'and'))
    DEEP.append("select * from int.tab1 t1 where " + _chain(n_, 'and'))
    DEEP.append("select " + '(' * n_ + '1' + ')' * n_ + " from int.tab1")
    DEEP.append("select * from int.tab1 where a in (" + ', '.join(str(i) for i in range(n_ * 3)) + ")")
DEEP.append(' union '.join("select a from int.tab%d" % i for i in range(40)))
deep_ops = []
_lim = _sys.getrecursionlimit()
for sql_ in DEEP:
    for op in (P(sql_, cA), {'k': 'parse', 'd': 'mindsdb', 'sql': sql_}, {'k': 'render', 'd': 'mindsdb', 'sql': sql_, 'rd': 'mysql', 'fb': True}):
        outs = []
        for f_ in (0.7, 1.4):
            _sys.setrecursionlimit(int(_lim * f_))
            try:
                outs.append(O.run_op(op, O.Env(catalogs, 'op', 'op')))
            finally:
                _sys.setrecursionlimit(_lim)
        if outs[0] == outs[1]:
            deep_ops.append(op)
fam('deep_inputs', deep_ops)

# the same kind of input built by the caller instead of parsed (op field 'ast'): the parser's share of the work is gone, so these
# are cheap enough for the quick tier.  Same rule: only what is far from the edge of the recursion limit.
chain_ops = []
for n_ in (40, 90, 260, 400):
    for bop_ in ('and', 'or'):
        for shape_ in ('plain', 'join', 'pred'):
            name_ = 'chain_%s_%d_%s' % (bop_, n_, shape_)
            cands_ = [{'k': 'plan', 'ast': name_, 'cat': cA}] if (n_ >= 260 and shape_ != 'plain') or (n_ == 40 and bop_ == 'or') else []
            if shape_ == 'plain' and n_ <= 260:
                cands_ += [{'k': 'render', 'd': 'mindsdb', 'ast': name_, 'rd': rd_, 'fb': True} for rd_ in (('mysql', 'postgresql') if n_ < 260 else ('mysql',))]
            for op in cands_:
                outs = []
                for f_ in (0.7, 1.4):
                    _sys.setrecursionlimit(int(_lim * f_))
                    try:
                        outs.append(O.run_op(op, O.Env(catalogs, 'op', 'op')))
                    finally:
                        _sys.setrecursionlimit(_lim)
                if outs[0] == outs[1]:
                    chain_ops.append(op)
fam('built_chains', chain_ops + [P("select * from int.tab1 t1 where t1.a = 1", cA), P("select t1.a, m.p from int.tab1 t1 join mindsdb.pred m where t1.b = 2", cA),
                                 P("select * from int.tab1 t1 join int2.tab2 t2 on t1.a = t2.a where t1.c = 3 or t2.d = 4", cA),
                                 {'k': 'render', 'd': 'mindsdb', 'sql': "select a from t where b = 1 or c = 2", 'rd': 'mysql', 'fb': True}])

# keyword blends: a word exactly as close to one keyword as to another (DELECT: SELECT / DELETE, SE: SET / USE, ND: AND / END), put
# where one of the two stands in an accepted statement.  Whatever an error reporter does with "the nearest keyword" has to break a
# tie here, and a tie broken by iteration order of a set follows the hash seed.  Computed from the lexer's token names.
import difflib as _difflib
from mindsdb_sql.parser.dialects.mindsdb.lexer import MindsDBLexer as _MLexer
_kws = sorted(t_ for t_ in _MLexer.tokens if re.fullmatch(r'[A-Z]+', t_) and len(t_) >= 2)


def _edits(a_):
    out_ = set()
    for i_ in range(len(a_)):
        out_.add(a_[:i_] + a_[i_ + 1:])
        if i_ + 1 < len(a_):
            out_.add(a_[:i_] + a_[i_ + 1] + a_[i_] + a_[i_ + 2:])
    return out_


_blends = set()
for a_ in _kws:
    for b_ in _kws:
        if a_ >= b_ or abs(len(a_) - len(b_)) > 1:
            continue
        bl_set_ = _edits(a_) & _edits(b_)
        for i_ in range(1, min(len(a_), len(b_))):
            bl_set_.add(a_[:i_] + b_[i_:])
            bl_set_.add(b_[:i_] + a_[i_:])
        for bl_ in bl_set_:
            if bl_ in _kws or len(bl_) < 2:
                continue
            r1_ = _difflib.SequenceMatcher(None, bl_, a_).ratio()
            if r1_ == _difflib.SequenceMatcher(None, bl_, b_).ratio() and r1_ >= 0.72:
                _blends.add((a_, b_, bl_))
_accepted = [op for op in parse_ops if op['d'] == 'mindsdb' and outcome('mindsdb', op['sql']).startswith('ok:') and len(op['sql']) < 160]
blend_ops = []
_seen_bl = set()
for a_, b_, bl_ in sorted(_blends):
    for kw_ in (a_, b_):
        pat_ = re.compile(r'(?<![A-Za-z_`.])%s(?![A-Za-z_`0-9])' % kw_, re.I)
        hosts_ = [op for op in _accepted if pat_.search(op['sql'])][:2]
        for op in hosts_:
            sql_ = pat_.sub(bl_, op['sql'], count=1)
            if sql_ not in _seen_bl:
                _seen_bl.add(sql_)
                blend_ops.append({'k': 'parse', 'd': 'mindsdb', 'sql': sql_})
fam('keyword_blends', blend_ops)

# plural slots: every list-valued position of a statement that the planner takes apart, filled with two to four distinct elements
# whose names differ in length and spelling (so that hashing orders them differently from how they are written).  A collection
# that an implementation keeps in a set / dict keyed by hashed objects shows its iteration order exactly here: the order of plan
# steps, of filters, of fetched columns.  The whole family is part of every S3 interpreter's slice.
c5 = cat_id({'integrations': ['int', 'int2', 'warehouse', 'crm', 'z9'], 'predictor_namespace': 'mindsdb', 'predictor_metadata': META_PRED + [{'name': 'churn'}, {'name': 'a1'}],
             'default_namespace': None})
_KEYS = ['region', 'order_id', 'sku', 'day', 'customer_id', 'z', 'aa', 'Qty']
plural = []
for nk_ in (2, 3, 4):
    for off_ in (0, 3):
        ks_ = [_KEYS[(off_ + i_) % len(_KEYS)] for i_ in range(nk_)]
        on_ = ' and '.join('o.%s = i.%s' % (k_, k_) for k_ in ks_)
        on_rev_ = ' and '.join('i.%s = o.%s' % (k_, k_) for k_ in ks_)
        plural.append(P("select * from int.orders o join int2.items i on %s" % on_, cA))
        plural.append(P("select o.%s, i.%s from int.orders o left join int2.items i on %s where o.total > 10" % (ks_[0], ks_[-1], on_rev_), cA))
        plural.append(P("select * from int.orders o join int2.items i on %s and o.total > i.price" % on_, cAPI))
        plural.append(P("select * from int.orders o join int2.items i on %s join warehouse.stock s on s.%s = i.%s and s.%s = o.%s" % (on_, ks_[0], ks_[0], ks_[1], ks_[1]), c5))
        plural.append(P("select * from int.orders o join mindsdb.pred m where %s" % ' and '.join("o.%s = %d" % (k_, j_) for j_, k_ in enumerate(ks_)), cA))
        plural.append(P("select * from mindsdb.pred where %s" % ' and '.join("%s = %d" % (k_, j_) for j_, k_ in enumerate(ks_)), cA))
        plural.append(P("select %s, count(*) from int.orders o join int2.items i on o.id = i.id group by %s order by %s" % (
            ', '.join('o.' + k_ for k_ in ks_), ', '.join('o.' + k_ for k_ in ks_), ', '.join('o.' + k_ for k_ in reversed(ks_))), cA))
        plural.append(P("select * from int.orders where %s" % ' and '.join("%s in (select %s from %s.t%d)" % (k_, k_, ['int2', 'warehouse', 'crm', 'z9'][j_], j_) for j_, k_ in enumerate(ks_)), c5))
        plural.append(P(' union '.join("select %s from %s.t" % (', '.join(ks_), ig_) for ig_ in ['int', 'int2', 'warehouse', 'crm'][:nk_]), c5))
        plural.append(P("with %s select * from %s" % (', '.join("%s as (select * from %s.t)" % (k_, ig_) for k_, ig_ in zip(ks_, ['int', 'int2', 'warehouse', 'crm'])),
                                                      ' join '.join(ks_[:2]) + ' on %s.id = %s.id' % (ks_[0], ks_[1])), c5))
        plural.append(P("insert into int.orders (%s) select %s from int2.items" % (', '.join(ks_), ', '.join(ks_)), cA))
        plural.append(P("update int.orders set %s from (select * from int2.items) as df where %s" % (
            ', '.join('%s = df.%s' % (k_, k_) for k_ in ks_), ' and '.join('orders.%s = df.%s' % (k_, k_) for k_ in ks_[:2])), cA))
        plural.append(P("select t.%s, m.p from int.orders t join mindsdb.pred m join mindsdb.churn c join mindsdb.a1 x" % ks_[0], c5))
plural.append(P("select * from mysql.data.ny_output as ta join mindsdb.tp3 as tb where ta.pickup_hour > latest and ta.vendor_id = 1 and ta.zone = 'a' and ta.kind = 2 and ta.day_type = 'w'", cTS2))
plural.append(P("select * from mysql.data.ny_output as ta join mindsdb.tp3 as tb where ta.day_type = 'w' and ta.kind = 2 and ta.pickup_hour > latest and ta.zone = 'a' and ta.vendor_id = 1", cTS2))
plural += [{'k': 'parse', 'd': 'mindsdb', 'sql': q_} for q_ in (
    "create model mindsdb.m from int (select * from t) predict a, b using engine = 'x', zeta = 1, alpha = 'q', Mid = 2.5, k9 = true",
    "create model mindsdb.m predict y using b = 1, a = 2, c = {\"z\": 1, \"a\": 2, \"m\": [3, 2, 1]}",
    "create database d with engine = 'pg', parameters = {\"user\": \"u\", \"host\": \"h\", \"port\": 5, \"a\": 1, \"zz\": 2}",
    "create job j (select 1) start '2023-01-01' end '2024-01-01' every 2 hours",
    "select * from t1, t2, zz, a9 where t1.a = t2.a and zz.b = a9.b",
    "create view v (select region, order_id, sku, day from int.t)",
    "create table int.t (region int, order_id text, sku float, day date, customer_id int)")]
plural_render = [{'k': 'render', 'd': 'mindsdb', 'sql': o_['sql'], 'rd': rd_, 'fb': True} for i_, o_ in enumerate(plural) if o_['k'] == 'plan' and i_ % 3 == 0
                 for rd_ in (('mysql', 'postgresql')[i_ % 2],)]
fam('plural_slots', plural + plural_render)

# wide inputs: a statement's breadth (number of distinct names / constants) instead of its depth.  A memo or table with a capacity
# (an LRU of 128, 256 or 512 entries, a cache that is cleared when full) behaves differently only once a process has seen more
# distinct keys than it holds; ordinary corpus texts share a few dozen names.  Caller-built (no parser cost) and parsed.
wide_ops = []
for n_ in (70, 140, 270, 530):
    for tag_ in ('a', 'b'):
        wide_ops.append({'k': 'plan', 'ast': 'wide_%d_%s_plain' % (n_, tag_), 'cat': cA})
        wide_ops.append({'k': 'render', 'd': 'mindsdb', 'ast': 'wide_%d_%s_plain' % (n_, tag_), 'rd': 'mysql' if tag_ == 'a' else 'postgresql', 'fb': True})
    wide_ops.append({'k': 'plan', 'ast': 'wide_%d_c_join' % n_, 'cat': cA})
    wide_ops.append({'k': 'plan', 'ast': 'wide_%d_d_consts' % n_, 'cat': cA})
    wide_ops.append({'k': 'render', 'd': 'mindsdb', 'ast': 'wide_%d_d_consts' % n_, 'rd': 'mysql', 'fb': True})
for n_ in (70, 140):
    cols_ = ', '.join('wp%d_%d' % (n_, i_) for i_ in range(n_))
    wide_ops.append({'k': 'parse', 'd': 'mindsdb', 'sql': 'select %s from int.tab1' % cols_})
    wide_ops.append({'k': 'parse', 'd': 'mysql', 'sql': 'select * from tab1 where a in (%s)' % ', '.join("'s%d_%d'" % (n_, i_) for i_ in range(n_))})
fam('wide_inputs', wide_ops + [P("select * from int.tab1 t1 where t1.a = 1", cA), P("select t1.a, m.p from int.tab1 t1 join mindsdb.pred m where t1.b = 2", cA),
                               P("select * from int.tab1 t1 join int2.tab2 t2 on t1.a = t2.a", cA),
                               {'k': 'parse', 'd': 'mindsdb', 'sql': "select a, b from t1 where c = 1"},
                               {'k': 'render', 'd': 'mindsdb', 'sql': "select a, b from t1 where c = 'x'", 'rd': 'mysql', 'fb': True}])

# DDL on one reused renderer: the same table name with different column lists, created / dropped / created again
DDL_EXTRA = ["create table t (a int, b text, primary key (a))", "create table t (a int, b text, primary key (x))", "create table t (a int primary key, b int default 1)",
             "create table t (a int, primary key (a, zz))"]
DDL = DDL_EXTRA + ["create table files.events (id int, payload text, created_at date)", "drop table files.events", "create table files.events (user_id int, score float)",
       "create table files.events (id int)", "create table events (id int, x text)", "create table events (y float)", "drop table if exists events, files.events",
       "create table files.other (id int, payload text)", "create or replace table files.events (z int)"]
ddl_ops = [{'k': 'render', 'd': 'mindsdb', 'sql': q_, 'rd': rd, 'fb': fb} for rd in ('mysql', 'postgresql', 'sqlite', 'mssql', 'oracle') for q_ in DDL
           for fb in (True, False) if outcome('mindsdb', q_).startswith('ok')]
render_ops_late = ddl_ops
for rd in ('mysql', 'postgresql', 'sqlite', 'mssql', 'oracle'):
    fam('render_ddl_' + rd, [o for o in ddl_ops if o['rd'] == rd])

# same text family: identical statements many times (text-keyed caches)
fam('same_text', [
    {'k': 'parse', 'd': 'mindsdb', 'sql': "select a, b from t where a = 1"},
    {'k': 'parse', 'd': 'mysql', 'sql': "select a, b from t where a = 1"},
    {'k': 'parse', 'd': 'sqlite', 'sql': "select a, b from t where a = 1"},
    P("select a, b from int.t where a = 1", cA),
    {'k': 'flow', 'd': 'mindsdb', 'sql': "select a, b from int.t where a = 1", 'cat': cA, 'rd': 'mysql'},
    {'k': 'flow', 'd': 'mindsdb', 'sql': "select t.a, m.p from int.tab1 t join mindsdb.pred m", 'cat': cA, 'rd': 'postgresql'},
    {'k': 'render', 'd': 'mindsdb', 'sql': "select a, b from t where a = 1", 'rd': 'mysql', 'fb': True},
    {'k': 'render', 'd': 'mindsdb', 'sql': "select a, b from t where a = 1", 'rd': 'postgresql', 'fb': False},
])
# accept/reject pairs in one dialect (parser / lexer instance state)
fam('accept_reject', [
    {'k': 'parse', 'd': d, 'sql': s} for d in ('mindsdb', 'mysql', 'sqlite') for s in [
        "select a from t where a = 1", "select a from t where a = ", "select a from t where where a = 1", "select # from t",
        "select a from t group by by a having count(*) > 1 order by a", "select a from t where a = 1 order by a",
        "select a,, b from t", "select a, b from t", "select 'x", "select 'x'", "create table", "show tables", "show",
    ]
])

# ------------------------------------------------------------------ generated statements (the C12 generator, values inline)
from dsim import c12 as C12  # noqa
grng = random.Random(777)
gen_ = C12.Gen(grng, pdens=0.35)
gcat = {n: cat_id(c) for n, c in C12.CATALOGS.items()}
gen_plan, gen_render, gen_parse = [], [], []
seen_g = set()
while len(gen_plan) < 260:
    ch, cat = gen_.statement()
    marked = C12.text_of(ch)
    n = marked.count(C12.MARK)
    if n > 6:
        continue
    tag = grng.randrange(8)
    inline = C12.subst(marked, [C12.value_for(k, tag)[1] for k in range(n)])
    if inline in seen_g or outcome('mindsdb', inline).startswith('err'):
        continue
    seen_g.add(inline)
    gen_plan.append(P(inline, gcat[cat]))
    if n and len(gen_parse) < 80:
        gen_parse.append({'k': 'parse', 'd': 'mindsdb', 'sql': marked.replace(C12.MARK, '?')})
        gen_plan.append(P(marked.replace(C12.MARK, '?'), gcat[cat]))
    if len(gen_render) < 240:
        rd = ['mysql', 'postgresql', 'sqlite', 'mssql', 'oracle', 'postgres', 'Snowflake'][len(gen_render) % 7]
        gen_render.append({'k': 'render', 'd': 'mindsdb', 'sql': inline, 'rd': rd, 'fb': bool(len(gen_render) % 2)})
fam('generated_one', [o for o in gen_plan if o['cat'] == gcat['one']][:40])
fam('generated_two', [o for o in gen_plan if o['cat'] == gcat['two']][:60])
fam('generated_model', [o for o in gen_plan if o['cat'] == gcat['model']][:40])

# flow ops from plan ops whose plan succeeds
flow_ops = []
for op in plan_ops + [o for f in ('pred_spelling', 'join_tables', 'ts_pred', 'dml') for o in families[f]]:
    for rd in ('mysql', 'postgresql'):
        flow_ops.append({'k': 'flow', 'd': op.get('d', 'mindsdb'), 'sql': op['sql'], 'cat': op['cat'], 'rd': rd})
rng.shuffle(flow_ops)
flow_ops = flow_ops[:120]

# every harvested planner scenario belongs to some family (so that its family history runs it twice in one process)
for i_ in range(0, len(plan_ops), 25):
    fam('plan_harvest_%d' % (i_ // 25), plan_ops[i_:i_ + 25])
# natural families from the harvested plan ops: all ops that share one catalog
by_cat = collections.defaultdict(list)
for op in plan_ops:
    by_cat[op['cat']].append(op)
for cid, lst in sorted(by_cat.items()):
    if len(lst) >= 3:
        fam('cat_' + cid, lst)
# families of harvested ops whose predictor_metadata is JSON-equal (shared metadata object)
by_meta = collections.defaultdict(list)
for op in plan_ops:
    m = catalogs[op['cat']].get('predictor_metadata')
    if m:
        by_meta[json.dumps(m, sort_keys=True)].append(op)
for i, (k, lst) in enumerate(sorted(by_meta.items())):
    if len(lst) >= 3 and len({o['cat'] for o in lst}) >= 2:
        fam('meta_%02d' % i, lst)

probes = [
    {'k': 'parse', 'd': 'mindsdb', 'sql': "select `select`, `from`, t.`where` from `table` as `order`"},
    {'k': 'parse', 'd': 'mysql', 'sql': "select `select`, `limit` from `group`"},
    {'k': 'parse', 'd': 'mindsdb', 'sql': "select null as n, true, (false) from t"},
    {'k': 'parse', 'd': 'mindsdb', 'sql': "select a from t union foo select b from u"},
    {'k': 'render', 'd': 'mindsdb', 'sql': "select cast(a as float), 1, 1.0, true from t1", 'rd': 'mysql', 'fb': True},
    {'k': 'render', 'd': 'mindsdb', 'sql': "insert into t (a, b) values (1, 'x'), (2, 'y')", 'rd': 'mssql', 'fb': True},
    {'k': 'render', 'd': 'mindsdb', 'sql': "insert into t (a, b) values (1, 'x'), (2, 'y')", 'rd': 'oracle', 'fb': True},
    {'k': 'render', 'd': 'mindsdb', 'sql': "select count(a), count(b) from t", 'rd': 'postgresql', 'fb': True},
    {'k': 'render', 'd': 'mindsdb', 'sql': "select a, b from t order by a limit 5 offset 3", 'rd': 'mssql', 'fb': True},
    {'k': 'render', 'd': 'mindsdb', 'sql': "create table files.events (id int, b text)", 'rd': 'postgresql', 'fb': True},
    {'k': 'parse', 'd': 'mindsdb', 'sql': "select a, b from t where a = 1 order by b"},
    {'k': 'parse', 'd': 'mysql', 'sql': "select a, b from t where a = 1 order by b"},
    {'k': 'parse', 'd': 'sqlite', 'sql': "select a, b from t where a = 1 order by b"},
    {'k': 'parse', 'd': 'mindsdb', 'sql': "select a from t where a = "},
    {'k': 'parse', 'd': 'mysql', 'sql': "select a from t where a = "},
    {'k': 'parse', 'd': 'sqlite', 'sql': "select # from t"},
    {'k': 'parse', 'd': 'mindsdb', 'sql': "create model m from int (select * from t) predict x"},
    P("select * from mindsdb.pred where x = 1", cA),
    P("select * from pred where x = 1", cB),
    P("select t.a, m.p from int.tab1 t join mindsdb.pred m", cA),
    P("select * from int.tab1 t1 join int2.tab2 t2 on t1.a = t2.a", cA),
    P("select * from mysql.data.ny_output as ta join mindsdb.tp3 as tb where ta.pickup_hour > latest and ta.vendor_id = 1", cTS),
    {'k': 'render', 'd': 'mindsdb', 'sql': "select a, b from t where c = 'x' limit 3", 'rd': 'mysql', 'fb': True},
    {'k': 'render', 'd': 'mindsdb', 'sql': "select a, b from t where c = 'x' limit 3", 'rd': 'postgresql', 'fb': False},
    {'k': 'render', 'd': 'mindsdb', 'sql': "create table t (id serial, a int)", 'rd': 'mssql', 'fb': True},
    {'k': 'render', 'd': 'mindsdb', 'sql': "select `select` from `from`", 'rd': 'sqlite', 'fb': True},
    {'k': 'render', 'd': 'mindsdb', 'sql': "select interval '1 day'", 'rd': 'oracle', 'fb': True},
]

pool = parse_ops + mut_ops + mal_ops + plan_ops + render_ops + flow_ops + gen_plan + gen_render + gen_parse + leaf_pool + render_ops_late + dialect_diff_ops + render_ops_long + raw_ops + plural + plural_render + wide_ops + blend_ops
# dedupe
seen = set()
pool2 = []
for op in pool:
    k = O.op_key(op)
    if k in seen:
        continue
    seen.add(k)
    pool2.append(op)

# derived family: render ops whose rendering, on the tree as it is now, edits the tree the caller passed in.  A caller that keeps
# a parsed statement and hands it to several threads shares exactly these writes; the family makes sure that every run has a
# scenario in which two clients render one tree object at the same time (gen_sweep_base forces 'tree_share' for it).
def _tree_dump(x, depth=0):
    if depth > 60:
        return '...'
    if isinstance(x, (str, int, float, bool, type(None))):
        return repr(x)
    if isinstance(x, (list, tuple)):
        return '[' + ','.join(_tree_dump(i, depth + 1) for i in x) + ']'
    if isinstance(x, dict):
        return '{' + ','.join(repr(k) + ':' + _tree_dump(v, depth + 1) for k, v in x.items()) + '}'
    if hasattr(x, '__dict__'):
        return type(x).__name__ + _tree_dump(vars(x), depth + 1)
    return type(x).__name__


def _edits_tree(op):
    from mindsdb_sql import parse_sql
    from mindsdb_sql.render.sqlalchemy_render import SqlalchemyRender
    rd = op.get('rd')
    if op.get('k') != 'render' or not op.get('sql') or not isinstance(rd, str) or rd.startswith('cls:') or op.get('wp'):
        return False
    try:
        t = parse_sql(op['sql'], dialect=op['d'])
        before = _tree_dump(t)
    except BaseException:  # noqa
        return False
    try:
        SqlalchemyRender(rd).get_string(t, with_failback=op.get('fb', True))
    except BaseException:  # noqa
        pass
    return _tree_dump(t) != before


import warnings  # noqa
with warnings.catch_warnings():
    warnings.simplefilter('ignore')
    _et = [op for op in pool2 if _edits_tree(op)]
if len(_et) >= 2:
    families['render_edits_tree'] = _et

# static hints per op (accepted/rejected class and number of LINE events in repo code), measured now: they only steer
# generation (fault placement ranges, stratum grouping); every judgement uses the reference computed at check time
from dsim.sched import count_events  # noqa
from dsim.child import resolve_scope  # noqa
_scope = resolve_scope(['repo'])
hints = {}
_allops = {}
for op in pool2 + [o for f in families.values() for o in f] + probes:
    _allops.setdefault(O.op_key(op), op)
for k_, op in _allops.items():
    try:
        obs_, n_ = count_events(lambda: O.run_op(op, O.Env(catalogs, 'op', 'op')), _scope)
    except BaseException as e:  # noqa
        obs_, n_ = 'err', 3000
    hints[k_] = ['err' if obs_.startswith('err') else 'ok', n_]
out = {'catalogs': catalogs, 'pool': pool2, 'families': families, 'probes': probes, 'strata': strata, 'hints': hints}
dst = os.path.join(os.path.dirname(os.path.abspath(__file__)), '..', 'dsim', 'corpus', 'corpus.json')
with open(dst, 'w') as f:
    json.dump(out, f, indent=0, sort_keys=True, ensure_ascii=False)
kinds = collections.Counter(o['k'] for o in pool2)
print('pool', len(pool2), dict(kinds), 'families', {k: len(v) for k, v in families.items()}, 'catalogs', len(catalogs))
