#!/bin/bash
# usage: vet_seeded.sh <id> <agent worktree> <property>
# Confirms an agent's seeded change in a fresh scratch worktree of /repo HEAD: the unedited test-suite passes with the
# patch, demo.py exits 1 with it and 0 without it.  On success copies patch.diff / demo.py / notes.md to /verif/seeded/<id>/.
set -u
id=$1; wt=$2; prop=$3
vet=/tmp/vet_$id
git -C /repo worktree remove --force $vet 2>/dev/null
git -C /repo worktree add -q --detach $vet HEAD || exit 2
cp -r $wt/_seeded $vet/_seeded
cd $vet
export PYTHONPATH=$vet PYTHONDONTWRITEBYTECODE=1
timeout 120 /venv/bin/python _seeded/demo.py >/tmp/vet_$id.clean.log 2>&1; clean=$?
git apply _seeded/patch.diff || { echo "PATCH DOES NOT APPLY"; git -C /repo worktree remove --force $vet; exit 2; }
timeout 120 /venv/bin/python _seeded/demo.py >/tmp/vet_$id.broken.log 2>&1; broken=$?
tests=$(timeout 900 /venv/bin/python -m pytest -q -p no:cacheprovider 2>&1 | tail -1)
echo "id=$id demo_on_clean=$clean demo_with_patch=$broken tests: $tests"
cd /
git -C /repo worktree remove --force $vet
if [ $clean -eq 0 ] && [ $broken -eq 1 ] && echo "$tests" | grep -q "688 passed"; then
  mkdir -p /verif/seeded/$id
  cp $wt/_seeded/patch.diff $wt/_seeded/demo.py $wt/_seeded/notes.md /verif/seeded/$id/
  echo "VETTED $id"
else
  echo "REJECTED $id"; tail -5 /tmp/vet_$id.clean.log /tmp/vet_$id.broken.log
fi
