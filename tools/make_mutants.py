"""One-off tool: build hand-written sensitivity mutants (DESIGN §6).  Each mutant is a set of textual edits;
it is kept as /verif/mutants/<name>.patch only if the unedited test-suite still passes with it.
Run: /venv/bin/python tools/make_mutants.py [name ...]"""
import os, shutil, subprocess, sys, tempfile

REPO = '/repo'
OUT = os.path.join(os.path.dirname(os.path.abspath(__file__)), '..', 'mutants')

M = {}

# ---- C20 -------------------------------------------------------------------------------------
M['c20_parser_cache_per_dialect'] = [('mindsdb_sql/__init__.py',
"""def get_lexer_parser(dialect):
    if dialect == 'sqlite':""",
"""_lexer_parser_cache = {}


def get_lexer_parser(dialect):
    if dialect in _lexer_parser_cache:
        return _lexer_parser_cache[dialect]
    _lexer_parser_cache[dialect] = res = _get_lexer_parser(dialect)
    return res


def _get_lexer_parser(dialect):
    if dialect == 'sqlite':""")]

M['c20_parse_sql_lru_cache'] = [('mindsdb_sql/__init__.py',
"""def parse_sql(sql, dialect='mindsdb'):
    # remove ending semicolon and spaces""",
"""import functools


@functools.lru_cache(maxsize=512)
def parse_sql(sql, dialect='mindsdb'):
    # remove ending semicolon and spaces""")]

M['c20_shared_lexer_instance'] = [('mindsdb_sql/__init__.py',
"""    elif dialect == 'mindsdb':
        from mindsdb_sql.parser.dialects.mindsdb.lexer import MindsDBLexer
        from mindsdb_sql.parser.dialects.mindsdb.parser import MindsDBParser
        lexer, parser = MindsDBLexer(), MindsDBParser()""",
"""    elif dialect == 'mindsdb':
        from mindsdb_sql.parser.dialects.mindsdb.lexer import MindsDBLexer
        from mindsdb_sql.parser.dialects.mindsdb.parser import MindsDBParser
        global _mdb_lexer
        if _mdb_lexer is None:
            # lexer has no grammar state, one instance is enough
            _mdb_lexer = MindsDBLexer()
        lexer, parser = _mdb_lexer, MindsDBParser()"""),
 ('mindsdb_sql/__init__.py', """def get_lexer_parser(dialect):""", """_mdb_lexer = None


def get_lexer_parser(dialect):""")]

M['c20_cte_results_class_level'] = [('mindsdb_sql/planner/query_planner.py',
"""class QueryPlanner:

    def __init__(self,""",
"""class QueryPlanner:

    cte_results = {}

    def __init__(self,"""),
 ('mindsdb_sql/planner/query_planner.py', """        self.statement = None

        self.cte_results = {}
""", """        self.statement = None
""")]

M['c20_join_tables_class_level'] = [('mindsdb_sql/planner/plan_join.py',
"""class PlanJoinTablesQuery:

    def __init__(self, planner):
        self.planner = planner

        # index to lookup tables
        self.tables_idx = None
        self.tables = []
        self.tables_fetch_step = {}
""",
"""class PlanJoinTablesQuery:

    # index to lookup tables
    tables_idx = None
    tables = []
    tables_fetch_step = {}

    def __init__(self, planner):
        self.planner = planner
""")]

M['c20_error_info_shared_dict'] = [('mindsdb_sql/parser/dialects/mindsdb/parser.py',
"""        # save error info for future usage
        self.error_info = dict(
            tokens=self.used_tokens.copy() + list(self.tokens),
            bad_token=p,
            expected_tokens=expected_tokens
        )""",
"""        # save error info for future usage
        self.error_info.update(
            tokens=self.used_tokens.copy() + list(self.tokens),
            bad_token=p,
            expected_tokens=expected_tokens
        )"""),
 ('mindsdb_sql/parser/dialects/mindsdb/parser.py', """    def error(self, p, expected_tokens=None):

        if not hasattr(self, 'used_tokens'):""", """    error_info = {}

    def error(self, p, expected_tokens=None):

        if not hasattr(self, 'used_tokens'):""")]

M['c20_reserved_words_cached_early'] = [('mindsdb_sql/parser/ast/select/identifier.py',
"""def get_reserved_words():
    from mindsdb_sql.parser.lexer import SQLLexer
    from mindsdb_sql.parser.dialects.mindsdb.lexer import MindsDBLexer

    reserved = RESERVED_KEYWORDS
    for word in SQLLexer.tokens | MindsDBLexer.tokens:
        if '_' not in word:
            # exclude combinations
            reserved.add(word)
    return reserved""",
"""_reserved_ready = False


def get_reserved_words():
    global _reserved_ready
    reserved = RESERVED_KEYWORDS
    if _reserved_ready:
        return reserved
    _reserved_ready = True
    from mindsdb_sql.parser.lexer import SQLLexer
    from mindsdb_sql.parser.dialects.mindsdb.lexer import MindsDBLexer

    for word in SQLLexer.tokens | MindsDBLexer.tokens:
        if '_' not in word:
            # exclude combinations
            reserved.add(word)
    return reserved""")]

M['c20_planner_sorts_integrations_in_place'] = [('mindsdb_sql/planner/query_planner.py',
"""        if integrations is not None:
            for integration in integrations:""",
"""        if integrations is not None:
            # project entries are not needed any more once they are registered
            for integration in list(integrations):
                if isinstance(integration, dict) and integration['type'] != 'data':
                    _projects.add(integration['name'].lower())
                    integrations.remove(integration)
            for integration in integrations:""")]

# ---- C12 -------------------------------------------------------------------------------------
M['c12_union_right_first'] = [('mindsdb_sql/planner/utils.py',
"""        node_out = query_traversal(node.left, callback, parent_query=node)
        if node_out is not None:
            node.left = node_out
        node_out = query_traversal(node.right, callback, parent_query=node)
        if node_out is not None:
            node.right = node_out

    elif isinstance(node, ast.Join):""",
"""        node_out = query_traversal(node.right, callback, parent_query=node)
        if node_out is not None:
            node.right = node_out
        node_out = query_traversal(node.left, callback, parent_query=node)
        if node_out is not None:
            node.left = node_out

    elif isinstance(node, ast.Join):""")]

M['c12_empty_params_skip_count_check'] = [('mindsdb_sql/planner/query_prepare.py',
"""        if params is not None:

            if len(params) != len(stmt.params):""",
"""        if params:

            if len(params) != len(stmt.params):""")]

M['c12_params_found_lazily'] = [('mindsdb_sql/planner/query_prepare.py',
"""        params = utils.get_query_params(query)

        stmt.params = params

        # get columns
        if isinstance(query, ast.Select):
            # prepare select
            return self.prepare_select(query)""",
"""        # get columns
        if isinstance(query, ast.Select):
            # prepare select
            return self.prepare_select(query)

        params = utils.get_query_params(query)

        stmt.params = params
"""),
 ('mindsdb_sql/planner/query_prepare.py', """        # save columns
        stmt.columns = columns_result

    def prepare_insert(self, query):""", """        # save columns
        stmt.columns = columns_result
        stmt.params = utils.get_query_params(query)

    def prepare_insert(self, query):""")]

M['c12_module_level_param_list'] = [('mindsdb_sql/planner/utils.py',
"""def get_query_params(query):
    # find all parameters
    params = []
""",
"""_found_params = []


def get_query_params(query):
    # find all parameters
    params = _found_params
    params.clear()
"""),
 ('mindsdb_sql/planner/utils.py', """    query_traversal(query, params_find)
    return params
""", """    query_traversal(query, params_find)
    return list(params)
""")]

M['c12_between_bounds_swapped_walk'] = [('mindsdb_sql/planner/utils.py',
"""    elif isinstance(node, (ast.Function, ast.BinaryOperation, ast.UnaryOperation, ast.BetweenOperation,
                           ast.Exists, ast.NotExists)):
        array = []
        for arg in node.args:
            node_out = query_traversal(arg, callback, parent_query=parent_query) or arg
            array.append(node_out)
        node.args = array
""",
"""    elif isinstance(node, ast.BetweenOperation):
        # value is checked against both bounds
        a, b, c = node.args
        c = query_traversal(c, callback, parent_query=parent_query) or c
        b = query_traversal(b, callback, parent_query=parent_query) or b
        a = query_traversal(a, callback, parent_query=parent_query) or a
        node.args = [a, b, c]

    elif isinstance(node, (ast.Function, ast.BinaryOperation, ast.UnaryOperation,
                           ast.Exists, ast.NotExists)):
        array = []
        for arg in node.args:
            node_out = query_traversal(arg, callback, parent_query=parent_query) or arg
            array.append(node_out)
        node.args = array
""")]


def main():
    names = sys.argv[1:] or sorted(M)
    for name in names:
        d = tempfile.mkdtemp(prefix='mut_')
        try:
            subprocess.run('git -C %s archive HEAD | tar -x -C %s' % (REPO, d), shell=True, check=True)
            subprocess.run('cd %s && git init -q && git add -A && git -c user.name=x -c user.email=x@x commit -qm base' % d, shell=True, check=True)
            ok = True
            for f, old, new in M[name]:
                p = os.path.join(d, f)
                s = open(p).read()
                if s.count(old) != 1:
                    print(name, 'EDIT DOES NOT MATCH in', f, s.count(old))
                    ok = False
                    break
                open(p, 'w').write(s.replace(old, new))
            if not ok:
                continue
            env = dict(os.environ, PYTHONPATH=d, PYTHONDONTWRITEBYTECODE='1')
            r = subprocess.run(['/venv/bin/python', '-m', 'pytest', '-q', '-p', 'no:cacheprovider', '-x'], cwd=d, env=env, capture_output=True, text=True)
            tail = r.stdout.strip().splitlines()[-1] if r.stdout.strip() else r.stderr[-200:]
            if r.returncode != 0:
                print('%-45s tests FAIL -> not a valid mutant (%s)' % (name, tail))
                continue
            diff = subprocess.run(['git', '-C', d, 'diff'], capture_output=True, text=True).stdout
            open(os.path.join(OUT, name + '.patch'), 'w').write(diff)
            print('%-45s tests pass -> kept (%s)' % (name, tail))
        finally:
            shutil.rmtree(d, ignore_errors=True)


if __name__ == '__main__':
    main()
