"""Turn `cli.py selftest mutants` logs (one per VERIF_SEED) into the markdown table of DESIGN §11.4.
usage: mutant_table.py log_seed0 [log_seed1 ...]"""
import json, os, re, sys
HERE = os.path.dirname(os.path.abspath(__file__))
first = json.load(open(os.path.join(HERE, '..', 'seeded', 'first_try.json')))
rows = {}
for i, path in enumerate(sys.argv[1:]):
    for line in open(path):
        m = re.match(r'\[selftest\] mutant (\S+)\s+(C\d+) (\S+)\s+([\d.]+)s\s+(.*)', line)
        if m:
            name, prop, st, dt, info = m.groups()
            rows.setdefault(name, {'prop': prop, 'res': [], 'info': ''})
            rows[name]['res'].append(st)
            if st == 'caught' and not rows[name]['info']:
                rows[name]['info'] = info
print('| change | property | first try | now (per seed) | example of what the check reported |')
print('|---|---|---|---|---|')
for name in sorted(rows, key=lambda n: (n.startswith('seeded/'), n)):
    r = rows[name]
    key = name.split('/')[-1]
    ft = first.get(key, ['-', ''])[0] if name.startswith('seeded/') else '-'
    info = re.sub(r'\s+', ' ', r['info'])[:150].replace('|', '\\|')
    print('| `%s` | %s | %s | %s | %s |' % (name, r['prop'], ft, ' / '.join(r['res']), info))
n = len(rows)
c = sum(1 for r in rows.values() if all(x == 'caught' for x in r['res']))
print('\n%d of %d changes caught on every seed tried.' % (c, n))
