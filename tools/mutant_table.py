"""Turn `cli.py selftest mutants` logs into the markdown table of DESIGN §11.4.
usage: mutant_table.py --full log [log ...] [--rerun log [log ...]]
  --full : logs of complete runs (every change once); --rerun : logs of later re-runs of single changes (idle machine)"""
import json, os, re, sys
HERE = os.path.dirname(os.path.abspath(__file__))
first = json.load(open(os.path.join(HERE, '..', 'seeded', 'first_try.json')))
mode, logs = None, {'full': [], 'rerun': []}
for a in sys.argv[1:]:
    if a in ('--full', '--rerun'):
        mode = a[2:]
    else:
        logs[mode or 'full'].append(a)
rows = {}
for kind in ('full', 'rerun'):
    for path in logs[kind]:
        for line in open(path):
            m = re.match(r'\[selftest\] mutant (\S+)\s+(C\d+) (\S+)\s+([\d.]+)s\s+(.*)', line)
            if m:
                name, prop, st, dt, info = m.groups()
                r = rows.setdefault(name, {'prop': prop, 'full': [], 'rerun': [], 'info': ''})
                r[kind].append(st)
                if st == 'caught' and (not r['info'] or 'phases' in r['info']):
                    r['info'] = info
print('| change | property | first try | full run | re-run | example of what the check reported |')
print('|---|---|---|---|---|---|')
for name in sorted(rows, key=lambda n: (n.startswith('seeded/'), n)):
    r = rows[name]
    key = name.split('/')[-1]
    ft = first.get(key, ['-', ''])[0] if name.startswith('seeded/') else '-'
    info = re.sub(r'\s+', ' ', r['info'])
    info = re.sub(r"\[C20\] phases \(seconds since start\): \[.*?\]\s*", '', info)[:140].replace('|', '\\|')
    print('| `%s` | %s | %s | %s | %s | %s |' % (name, r['prop'], ft, ' / '.join(r['full']) or 'not run', ' / '.join(r['rerun']), info))
n = len(rows)
c1 = sum(1 for r in rows.values() if r['full'] and all(x == 'caught' for x in r['full']))
c2 = sum(1 for r in rows.values() if (r['full'] + r['rerun']) and (r['rerun'] or r['full'])[-1] == 'caught')
print('\n%d changes; %d caught in the full run; %d caught counting the latest verdict per change.' % (n, c1, c2))
