"""One-off tool (not used by any registered check): harvest the inputs that the repository's own
tests hand to parse_sql / plan_query / SqlalchemyRender, to freeze them as a corpus under
/verif/dsim/corpus.  Run:
  cd /repo && HARVEST_OUT=/tmp/harvest.json /venv/bin/python -m pytest -q -p no:cacheprovider \
      -p harvest_plugin   (with PYTHONPATH=/verif/tools)
"""
import json, os, sys, copy

REC = {'parse': {}, 'plan': [], 'render': {}}
_ast_src = {}


def _jsonable(x):
    try:
        json.dumps(x)
        return True
    except Exception:
        return False


def pytest_configure(config):
    import mindsdb_sql
    import mindsdb_sql.planner as planner_mod
    from mindsdb_sql.planner import query_planner
    from mindsdb_sql.render import sqlalchemy_render

    real_parse = mindsdb_sql.parse_sql

    def parse_sql(sql, dialect='mindsdb'):
        key = (dialect, sql)
        try:
            ast = real_parse(sql, dialect=dialect)
        except Exception as e:
            REC['parse'].setdefault(key, 'err:' + type(e).__name__)
            raise
        REC['parse'].setdefault(key, 'ok:' + type(ast).__name__)
        _ast_src[id(ast)] = (ast, dialect, sql)
        return ast

    mindsdb_sql.parse_sql = parse_sql
    config._harvest_parse = parse_sql

    real_init = query_planner.QueryPlanner.__init__

    def init(self, query=None, integrations=None, predictor_namespace=None, predictor_metadata=None,
             default_namespace=None):
        cat = dict(integrations=copy.deepcopy(integrations), predictor_namespace=predictor_namespace,
                   predictor_metadata=copy.deepcopy(predictor_metadata), default_namespace=default_namespace)
        src = _ast_src.get(id(query))
        sql = None
        if src is not None and src[0] is query:
            sql = [src[1], src[2]]
        elif query is not None:
            try:
                sql = ['mindsdb', str(query)]
            except Exception:
                sql = None
        if sql is not None and _jsonable(cat):
            REC['plan'].append({'sql': sql, 'catalog': cat, 'exact': src is not None})
        return real_init(self, query, integrations=integrations, predictor_namespace=predictor_namespace,
                         predictor_metadata=predictor_metadata, default_namespace=default_namespace)

    query_planner.QueryPlanner.__init__ = init

    real_get = sqlalchemy_render.SqlalchemyRender.get_exec_params

    def get_exec_params(self, ast_query, with_failback=True, with_params=True):
        src = _ast_src.get(id(ast_query))
        if src is not None and src[0] is ast_query:
            REC['render'].setdefault((self.dialect.name, src[1], src[2], with_failback), 1)
        else:
            try:
                REC['render'].setdefault((self.dialect.name, 'mindsdb', str(ast_query), with_failback), 1)
            except Exception:
                pass
        return real_get(self, ast_query, with_failback=with_failback, with_params=with_params)

    sqlalchemy_render.SqlalchemyRender.get_exec_params = get_exec_params


def pytest_collection_modifyitems(session, config, items):
    # test modules did `from mindsdb_sql import parse_sql` before/after configure: patch their globals
    import mindsdb_sql
    for name, mod in list(sys.modules.items()):
        if name.startswith('tests') and getattr(mod, 'parse_sql', None) is not None:
            mod.parse_sql = config._harvest_parse


def pytest_sessionfinish(session, exitstatus):
    out = os.environ.get('HARVEST_OUT', '/tmp/harvest.json')
    data = {
        'parse': [[d, s, o] for (d, s), o in REC['parse'].items()],
        'plan': REC['plan'],
        'render': [list(k) for k in REC['render']],
    }
    with open(out, 'w') as f:
        json.dump(data, f)
