"""usage: run_on_patch.py <patch> <C12|C20> [tier]  -- full output of one check against a scratch copy with the patch applied"""
import os, sys, subprocess, shutil, tempfile
HERE = os.path.dirname(os.path.abspath(__file__))
sys.path.insert(0, os.path.join(HERE, '..'))
from dsim import selftest
patch, prop = os.path.abspath(sys.argv[1]), sys.argv[2]
tier = sys.argv[3] if len(sys.argv) > 3 else 'quick'
d = selftest.scratch_copy()
outd = tempfile.mkdtemp(prefix='dsim_out_')
try:
    r = subprocess.run(['git', 'apply', '--unsafe-paths', '--directory=' + d, patch], cwd='/')
    assert r.returncode == 0
    env = dict(os.environ, VERIF_REPO=d, VERIF_OUT=outd)
    p = subprocess.run(['/venv/bin/python', os.path.join(HERE, '..', 'cli.py'), 'check', prop, '--tier', tier], env=env, cwd=os.path.join(HERE, '..'))
    print('exit', p.returncode, 'out', outd)
finally:
    shutil.rmtree(d, ignore_errors=True)
    if not os.environ.get('KEEP_OUT'):
        shutil.rmtree(outd, ignore_errors=True)
