"""Warm zygote (DESIGN §3.3): a fresh interpreter under a given PYTHONHASHSEED that imports sly,
sqlalchemy and all of mindsdb_sql once, stays single-threaded, and forks one child per request.
Protocol: one JSON request per stdin line, one JSON reply per stdout line.
"""
import json
import os
import select
import signal
import sys
import time


def warm():
    root = os.environ.get('VERIF_REPO', '/repo')
    sys.path.insert(0, root)
    here = os.path.dirname(os.path.dirname(os.path.abspath(__file__)))
    sys.path.insert(0, here)
    # cooperative locks for the simulated code base: must be in place before it is imported
    from dsim import simlock
    simlock.install()
    import sly  # noqa
    import sqlalchemy  # noqa
    import mindsdb_sql  # noqa
    from mindsdb_sql import parse_sql
    import mindsdb_sql.planner  # noqa
    import mindsdb_sql.planner.plan_join  # noqa
    import mindsdb_sql.planner.plan_join_ts  # noqa
    import mindsdb_sql.render.sqlalchemy_render  # noqa
    # import (not use) the three dialects: LALR tables are built at class creation
    import mindsdb_sql.parser.lexer, mindsdb_sql.parser.parser  # noqa
    import mindsdb_sql.parser.dialects.mysql.lexer, mindsdb_sql.parser.dialects.mysql.parser  # noqa
    import mindsdb_sql.parser.dialects.mindsdb.lexer, mindsdb_sql.parser.dialects.mindsdb.parser  # noqa
    from dsim import child, ops, sched  # noqa
    child.corpus()
    try:
        from dsim import c12  # noqa
    except ImportError:
        pass
    # everything imported so far becomes permanent: a child's gc.collect() (at run start and as injected
    # fault F6) then only looks at what the run itself allocated, and fork stays copy-on-write friendly
    import gc
    gc.collect()
    gc.freeze()


def serve():
    warm()
    out = sys.stdout
    out.write(json.dumps({'ready': True, 'hashseed': os.environ.get('PYTHONHASHSEED')}) + '\n')
    out.flush()
    from dsim import child
    for line in sys.stdin:
        line = line.strip()
        if not line:
            continue
        spec = json.loads(line)
        if spec.get('cmd') == 'quit':
            break
        limit = float(spec.get('wall_limit_s', 180.0))
        r, w = os.pipe()
        pid = os.fork()
        if pid == 0:
            code = 0
            try:
                os.close(r)
                res = child.dispatch(spec)
                data = json.dumps(res).encode()
                with os.fdopen(w, 'wb') as f:
                    f.write(data)
            except BaseException as e:  # noqa
                import traceback
                try:
                    os.write(w, json.dumps({'harness_error': 'child exception: %r\n%s' % (e, traceback.format_exc())}).encode())
                except Exception:
                    pass
                code = 3
            finally:
                os._exit(code)
        os.close(w)
        chunks = []
        deadline = time.time() + limit
        timed_out = False
        while True:
            left = deadline - time.time()
            if left <= 0:
                timed_out = True
                break
            rl, _, _ = select.select([r], [], [], min(left, 5.0))
            if rl:
                b = os.read(r, 1 << 20)
                if not b:
                    break
                chunks.append(b)
        os.close(r)
        if timed_out:
            try:
                os.kill(pid, signal.SIGKILL)
            except OSError:
                pass
        _, status = os.waitpid(pid, 0)
        if timed_out:
            res = {'harness_error': 'wall limit %ss exceeded' % limit}
        else:
            try:
                res = json.loads(b''.join(chunks).decode())
            except Exception as e:
                res = {'harness_error': 'no result from child (status %r): %r' % (status, e)}
        out.write(json.dumps(res) + '\n')
        out.flush()


if __name__ == '__main__':
    serve()
