"""Deterministic scheduler: baton-passing real threads, pre-empted at sys.monitoring LINE or
INSTRUCTION events of code in a module scope (DESIGN §3.2).  Exactly one client thread runs at any
time; every other client is parked on its own semaphore inside the monitoring callback (or at its
start barrier).  Which client runs next, where faults are raised and where the garbage collector
runs are decided either by a seeded strategy (generative mode, decisions are recorded) or by an
explicit recorded schedule (replay mode, no PRNG involved).
"""
import gc
import sys
import threading
import zlib
import random

from .ops import SimAbort, run_op, exc_obs

mon = sys.monitoring
TOOL = 3
DISABLE = mon.DISABLE

# repo functions that SQLAlchemy calls back while compiling: never a switch / fault point (§3.2)
NO_SWITCH_NAMES = frozenset(['_compile_interval', 'render_literal_value'])


class SimBudget(BaseException):
    """An op exceeded its step budget (I3)."""


class Client:
    __slots__ = ('cid', 'ops', 'env', 'sem', 'thread', 'ev', 'op_i', 'op_ev', 'results', 'done',
                 'fault_at', 'fired', 'budgets', 'op_evs', 'prio', 'pending_fault')

    def __init__(self, cid, ops, env):
        self.cid = cid
        self.ops = ops
        self.env = env
        self.sem = threading.Semaphore(0)
        self.thread = None
        self.ev = 0            # events seen by this client so far
        self.op_i = -1
        self.op_ev = 0         # events inside the current op
        self.results = []
        self.done = False
        self.fault_at = {}     # (op_i, op_ev) -> kind
        self.fired = []        # [(op_i, op_ev, kind, where)]
        self.budgets = None    # per-op step budgets or None
        self.op_evs = []       # events per completed op
        self.prio = 0
        self.pending_fault = None


class Sim:
    """One simulated run.

    spec keys used here:
      gran: 'line' | 'instr';  scope: list of path prefixes that are pre-emption scope;
      fault_scope: list of path prefixes in which F2/F3 may be raised;
      strategy: {'kind': 'bernoulli', 'p':..} | {'kind': 'rr', 'q':..} | {'kind': 'pct', 'd':.., 'est':..}
                | {'kind': 'none'} | {'kind': 'replay', 'switches': [[c, ev, nxt]..], 'finishes': [[c, nxt]..]}
      sched_seed: int;  faults: [[client, op_i, op_ev, kind]..];  gcs: [[client, ev]..]
    """

    def __init__(self, spec, clients, watchdog_s=60.0):
        self.spec = spec
        self.clients = clients
        self.by_tid = {}
        self.scope_prefixes = tuple(spec['scope'])
        self.fault_prefixes = tuple(spec.get('fault_scope') or spec['scope'])
        self.scope_cache = {}
        self.rng = random.Random(spec.get('sched_seed', 0))
        self.step = 0
        self.digest = 0
        self.switches = []     # recorded [client, client_ev, next]
        self.finishes = []     # recorded [client, next]
        self.gc_fired = []
        self.current = None
        self.done_sem = threading.Semaphore(0)
        self.watchdog_s = watchdog_s
        self.max_steps = spec.get('max_steps', 2_000_000)
        self.overlap_funcs = {}     # co_name -> count of events where another client is parked in the same function
        self.switch_sites = []      # (client, file:line) at switch points, for the interleaving signature
        self.stack_names = {}
        st = spec['strategy']
        self.kind = st['kind']
        self.since = 0
        if self.kind == 'replay':
            self.rp_sw = {}
            for c, oi, ev, nxt in st.get('switches', []):
                self.rp_sw[(c, oi, ev)] = nxt
            self.rp_fin = {}
            for c, nxt in st.get('finishes', []):
                self.rp_fin.setdefault(c, nxt)
        elif self.kind == 'pct':
            est = max(10, int(st.get('est', 10000)))
            self.pct_points = sorted(self.rng.randrange(est) for _ in range(st.get('d', 1)))
            prios = list(range(len(clients)))
            self.rng.shuffle(prios)
            for c, p in zip(clients, prios):
                c.prio = p + 1000
            self.pct_low = 999
        self.gcs = {}          # cumulative per-client positions (generative specs)
        for c, ev in spec.get('gcs', []):
            self.gcs[(c, ev)] = True
        self.gcs_at = {}       # op-relative positions (replay specs)
        for c, oi, ev in spec.get('gcs_at', []):
            self.gcs_at[(c, oi, ev)] = True
        for c, op_i, op_ev, kind in spec.get('faults', []):
            clients[c].fault_at[(op_i, op_ev)] = kind
        self.error = None

    # ------------------------------------------------------------------ scope
    def _in_scope(self, code):
        fn = code.co_filename
        ok = fn.startswith(self.scope_prefixes) and code.co_name not in NO_SWITCH_NAMES
        # bit0: switch scope, bit1: fault scope, rest: crc of the file name (hash-seed independent)
        v = 0
        if ok:
            v = 1 | (2 if fn.startswith(self.fault_prefixes) else 0) | ((zlib.crc32(fn.encode()) & 0xFFFF) << 2)
        self.scope_cache[code] = v
        return v

    # ------------------------------------------------------------------ the event callback
    def on_event(self, code, pos):
        sc = self.scope_cache.get(code)
        if sc is None:
            sc = self._in_scope(code)
        if not sc:
            return DISABLE
        c = self.by_tid.get(threading.get_ident())
        if c is None or c.op_i < 0:
            return None
        self.step += 1
        c.ev += 1
        c.op_ev += 1
        self.digest = ((self.digest * 1000003) ^ ((sc >> 2) * 131 + pos * 7 + c.cid)) & 0xFFFFFFFFFFFF
        # --- faults
        if c.fault_at or c.pending_fault:
            kind = c.fault_at.pop((c.op_i, c.op_ev), None) or c.pending_fault
            if kind is not None:
                if sc & 2:
                    c.pending_fault = None
                    c.fired.append([c.op_i, c.op_ev, kind, '%s:%d' % (code.co_name, pos)])
                    if kind == 'abort':
                        raise SimAbort()
                    if kind == 'mem':
                        raise MemoryError('injected')
                    if kind == 'rec':
                        raise RecursionError('injected')
                else:
                    c.pending_fault = kind
        # --- budget (I3)
        if c.budgets is not None and c.op_ev > c.budgets[c.op_i]:
            c.budgets[c.op_i] = 1 << 60
            raise SimBudget()
        if self.step > self.max_steps:
            self.max_steps = 1 << 60
            raise SimBudget()
        # --- gc
        if self.gcs and (c.cid, c.ev) in self.gcs:
            del self.gcs[(c.cid, c.ev)]
            self.gc_fired.append([c.cid, c.op_i, c.op_ev])
            gc.collect()
        if self.gcs_at and (c.cid, c.op_i, c.op_ev) in self.gcs_at:
            del self.gcs_at[(c.cid, c.op_i, c.op_ev)]
            self.gc_fired.append([c.cid, c.op_i, c.op_ev])
            gc.collect()
        # --- switch?
        nxt = self._decide(c)
        if nxt is not None and nxt is not c:
            self.switches.append([c.cid, c.op_i, c.op_ev, nxt.cid])
            self.switch_sites.append((c.cid, sc >> 2, pos))
            self._overlap(c)
            self.current = nxt
            nxt.sem.release()
            c.sem.acquire()
        return None

    def _overlap(self, c):
        """Rare-condition probe: which in-scope functions are on the stacks of two clients at once."""
        names = set()
        f = sys._getframe(2)
        while f is not None:
            code = f.f_code
            if self.scope_cache.get(code):
                names.add(code.co_name)
            f = f.f_back
        c_names = self.stack_names
        c_names[c.cid] = names
        for cid, other in c_names.items():
            if cid != c.cid and not self.clients[cid].done:
                for n in names & other:
                    self.overlap_funcs[n] = self.overlap_funcs.get(n, 0) + 1

    def _runnable_others(self, c):
        return [x for x in self.clients if x is not c and not x.done]

    def _decide(self, c):
        k = self.kind
        if k == 'none':
            return None
        if k == 'replay':
            n = self.rp_sw.get((c.cid, c.op_i, c.op_ev))
            if n is None:
                return None
            x = self.clients[n] if 0 <= n < len(self.clients) else None
            if x is None or x.done:
                return None
            return x
        if k == 'bernoulli':
            if self.rng.random() < self.spec['strategy']['p']:
                o = self._runnable_others(c)
                if o:
                    return o[self.rng.randrange(len(o))]
            return None
        if k == 'rr':
            self.since += 1
            if self.since >= self.spec['strategy']['q']:
                self.since = 0
                n = len(self.clients)
                for i in range(1, n):
                    x = self.clients[(c.cid + i) % n]
                    if not x.done:
                        return x
            return None
        if k == 'pct':
            if self.pct_points and self.step >= self.pct_points[0]:
                self.pct_points.pop(0)
                c.prio = self.pct_low
                self.pct_low -= 1
            best = c
            for x in self.clients:
                if not x.done and x.prio > best.prio:
                    best = x
            return best if best is not c else None
        return None

    # ------------------------------------------------------------------ client life cycle
    def _client_main(self, c):
        c.sem.acquire()
        try:
            for i, op in enumerate(c.ops):
                c.op_ev = 0
                c.op_i = i
                try:
                    obs = run_op(op, c.env)
                except SimAbort:
                    obs = 'abort'
                except SimBudget:
                    obs = 'budget'
                except (MemoryError, RecursionError) as e:
                    obs = 'fault: ' + exc_obs(e)
                except BaseException as e:  # noqa
                    obs = 'base-' + exc_obs(e)
                c.op_i = -1
                c.op_evs.append(c.op_ev)
                c.results.append(obs)
        except BaseException as e:  # harness failure inside a client
            self.error = 'client %d: %r' % (c.cid, e)
        finally:
            c.op_i = -1
            self._finish(c)

    def _finish(self, c):
        c.done = True
        rest = [x for x in self.clients if not x.done]
        if not rest:
            self.done_sem.release()
            return
        nxt = None
        if self.kind == 'replay':
            n = self.rp_fin.get(c.cid)
            if n is not None and 0 <= n < len(self.clients) and not self.clients[n].done:
                nxt = self.clients[n]
        elif self.kind == 'pct':
            nxt = max(rest, key=lambda x: x.prio)
        elif self.kind in ('bernoulli',):
            nxt = rest[self.rng.randrange(len(rest))]
        if nxt is None:
            nxt = rest[0]
        self.finishes.append([c.cid, nxt.cid])
        self.current = nxt
        nxt.sem.release()

    def run(self):
        """Run all clients to completion.  Returns True on normal completion, False on watchdog."""
        ev = mon.events.LINE if self.spec.get('gran', 'line') == 'line' else mon.events.INSTRUCTION
        mon.use_tool_id(TOOL, 'dsim')
        mon.register_callback(TOOL, ev, self.on_event)
        for c in self.clients:
            t = threading.Thread(target=self._client_main, args=(c,), name='client-%d' % c.cid, daemon=True)
            c.thread = t
            t.start()
            self.by_tid[t.ident] = c
        mon.set_events(TOOL, ev)
        first = self.clients[0]
        if self.kind == 'replay':
            f = self.spec['strategy'].get('first', 0)
            if 0 <= f < len(self.clients):
                first = self.clients[f]
        elif self.kind == 'pct':
            first = max(self.clients, key=lambda x: x.prio)
        elif self.kind == 'bernoulli':
            first = self.clients[self.rng.randrange(len(self.clients))]
        self.first = first.cid
        self.current = first
        first.sem.release()
        ok = self.done_sem.acquire(timeout=self.watchdog_s)
        mon.set_events(TOOL, 0)
        mon.register_callback(TOOL, ev, None)
        mon.free_tool_id(TOOL)
        if ok:
            for c in self.clients:
                c.thread.join(timeout=5)
        return ok


def count_events(fn, scope, gran='line'):
    """Run fn() single-threaded with event counting only (used for the reference event counts and
    for the transparency self-check: monitoring must not change an observable)."""
    prefixes = tuple(scope)
    cache = {}
    n = [0]

    def cb(code, pos):
        sc = cache.get(code)
        if sc is None:
            sc = cache[code] = code.co_filename.startswith(prefixes) and code.co_name not in NO_SWITCH_NAMES
        if not sc:
            return DISABLE
        n[0] += 1

    ev = mon.events.LINE if gran == 'line' else mon.events.INSTRUCTION
    mon.use_tool_id(TOOL, 'dsim-count')
    mon.register_callback(TOOL, ev, cb)
    mon.set_events(TOOL, ev)
    try:
        r = fn()
    finally:
        mon.set_events(TOOL, 0)
        mon.register_callback(TOOL, ev, None)
        mon.free_tool_id(TOOL)
    return r, n[0]
