"""Deterministic scheduler: baton-passing real threads, pre-empted at sys.monitoring LINE or
INSTRUCTION events of code in a module scope (DESIGN §3.2).  Exactly one client thread runs at any
time; every other client is parked on its own semaphore inside the monitoring callback (or at its
start barrier).  Which client runs next, where faults are raised and where the garbage collector
runs are decided either by a seeded strategy (generative mode, decisions are recorded) or by an
explicit recorded schedule (replay mode, no PRNG involved).

Hot path: the callback only counts (`step += 1`) until the next *stop* (the nearest of: next
scheduling decision, next fault, next gc point, budget limit); per-client and per-op event counts
are derived from the global step counter at stops and op boundaries.
"""
import gc
import math
import sys
import _thread
import threading
import zlib
import random

from .ops import SimAbort, run_op, exc_obs
from . import simlock
from .simlock import SimDeadlock

mon = sys.monitoring
TOOL = 3
DISABLE = mon.DISABLE
INF = 1 << 60

# repo functions that SQLAlchemy calls back while compiling: never a switch / fault point (§3.2)
NO_SWITCH_NAMES = frozenset(['_compile_interval', 'render_literal_value'])


class SimBudget(BaseException):
    """An op exceeded its step budget (I3)."""


MAX_SWITCHES = 30000


class Client:
    __slots__ = ('cid', 'ops', 'env', 'sem', 'thread', 'ev', 'op_i', 'op_ev', 'results', 'done',
                 'faults', 'fired', 'budgets', 'op_evs', 'prio', 'pending_fault', 'gcs', 'rp', 'since', 'next_sw')

    def __init__(self, cid, ops, env):
        self.cid = cid
        self.ops = ops
        self.env = env
        # the baton: a raw lock used as a binary semaphore (starts 'taken').  Its acquire / release are C calls, so a client that
        # sits a frame or two below the interpreter's recursion limit can still give the baton away and go to sleep
        self.sem = _thread.allocate_lock()
        self.sem.acquire()
        self.thread = None
        self.ev = 0            # events of this client in completed ops
        self.op_i = -1
        self.op_ev = 0         # events inside the current op (valid after _sync)
        self.results = []
        self.done = False
        self.faults = {}       # op_i -> sorted [(op_ev, kind)]
        self.fired = []        # [op_i, op_ev, kind, where]
        self.budgets = None    # per-op step budgets or None
        self.op_evs = []       # events per completed op
        self.prio = 0
        self.pending_fault = None
        self.gcs = {}          # op_i -> sorted [op_ev]
        self.rp = {}           # replay: op_i -> sorted [(op_ev, next)]
        self.since = 0         # rr: events since this client got the baton
        self.next_sw = INF     # bernoulli: remaining events until the next switch attempt


class Sim:
    """One simulated run.

    spec keys used here:
      gran: 'line' | 'instr';  scope: list of path prefixes that are pre-emption scope;
      fault_scope: list of path prefixes in which F2/F3 may be raised;
      strategy: {'kind': 'bernoulli', 'p':..} | {'kind': 'rr', 'q':..} | {'kind': 'pct', 'd':.., 'est':..}
                | {'kind': 'focus', 'p':.., 'fn': [file suffix, function name, first line]} | {'kind': 'none'} | {'kind': 'replay', 'switches': [[c, op_i, op_ev, nxt]..], 'finishes': [[c, nxt]..], 'first': c}
      sched_seed: int;  faults: [[client, op_i, op_ev, kind]..];  gcs_at: [[client, op_i, op_ev]..]
      full_digest: bool  — fold every single event (client, file, position) into the event-log digest
    """

    def __init__(self, spec, clients, watchdog_s=60.0, runner=None):
        self.spec = spec
        self.runner = runner or run_op
        self.clients = clients
        self.scope_prefixes = tuple(spec['scope'])
        self.fault_prefixes = tuple(spec.get('fault_scope') or spec['scope'])
        self.scope_cache = {}
        self.rng = random.Random(spec.get('sched_seed', 0))
        self.step = 0
        self.stop = INF
        self.mark = 0
        self.digest = 0
        self.switches = []     # recorded [client, op_i, op_ev, next]
        self.finishes = []     # recorded [client, next]
        self.gc_fired = []
        self.current = None
        self.done_sem = threading.Semaphore(0)
        self.watchdog_s = watchdog_s
        self.overlap_funcs = {}
        self.switch_sites = []
        self.stack_names = {}
        self.full_digest = bool(spec.get('full_digest'))
        self.focus_faults = {(f[0], f[1]): f[2] for f in spec.get('focus_faults', [])}
        self.client_focus_hits = {}
        self.focus_keys = []
        self.focus_files = ()
        self.focus_skip = frozenset()
        self.instr_key = tuple(spec['instr_fn']) if spec.get('instr_fn') else None
        self.instr_codes = []
        self.focus_hits = 0
        self.lock_yields = 0
        self.blocked = set()       # clients currently waiting for a lock
        st = spec['strategy']
        self.kind = st['kind']
        if self.kind == 'replay':
            for c, oi, ev, nxt in st.get('switches', []):
                if 0 <= c < len(clients):
                    clients[c].rp.setdefault(oi, []).append((ev, nxt))
            for c in clients:
                for oi in c.rp:
                    c.rp[oi].sort()
            self.rp_fin = {}
            for c, nxt in st.get('finishes', []):
                self.rp_fin.setdefault(c, nxt)
        elif self.kind == 'pct':
            est = max(10, int(st.get('est', 10000)))
            self.pct_points = sorted(self.rng.randrange(est) for _ in range(st.get('d', 1)))
            prios = list(range(len(clients)))
            self.rng.shuffle(prios)
            for c, p in zip(clients, prios):
                c.prio = p + 1000
            self.pct_low = 999
        elif self.kind == 'bernoulli':
            self.p = st['p']
            self.logq = math.log(1.0 - self.p)
        elif self.kind == 'rr':
            self.q = st['q']
        elif self.kind == 'focus':
            self.p = st.get('p', 0.5)
            self.focus_keys = [tuple(st['fn'])] if st.get('fn') else []
            self.focus_keys += [tuple(f) for f in st.get('fns', [])]
            self.focus_files = tuple(st.get('files', []))
            self.focus_skip = frozenset(st.get('skip_names', []))
        for c, oi, ev in spec.get('gcs_at', []):
            if 0 <= c < len(clients):
                clients[c].gcs.setdefault(oi, []).append(ev)
        for c, op_i, op_ev, kind in spec.get('faults', []):
            if 0 <= c < len(clients):
                clients[c].faults.setdefault(op_i, []).append((op_ev, kind))
        for c in clients:
            for oi in c.faults:
                c.faults[oi].sort()
            for oi in c.gcs:
                c.gcs[oi].sort()
        self.error = None

    # ------------------------------------------------------------------ scope
    def _in_scope(self, code):
        fn = code.co_filename
        ok = fn.startswith(self.scope_prefixes) and code.co_name not in NO_SWITCH_NAMES
        # bit0: switch scope, bit1: fault scope, bit2: the run's focus function, rest: crc of the file name
        # (hash-seed independent)
        v = 0
        if ok:
            v = 1 | (2 if fn.startswith(self.fault_prefixes) else 0) | ((zlib.crc32(fn.encode()) & 0xFFFF) << 3)
            for fk in self.focus_keys:
                if code.co_name == fk[1] and code.co_firstlineno == fk[2] and fn.endswith(fk[0]):
                    v |= 4
            if self.focus_files and fn.endswith(self.focus_files) and code.co_name not in self.focus_skip:
                v |= 4
            ik = self.instr_key
            if ik is not None and code.co_name == ik[1] and code.co_firstlineno == ik[2] and fn.endswith(ik[0]):
                # bytecode-level pre-emption points inside this one function (local INSTRUCTION events), line level elsewhere
                v |= 8
                if self.spec.get('gran', 'line') == 'line':
                    mon.set_local_events(TOOL, code, mon.events.INSTRUCTION)
                    self.instr_codes.append(code)
        self.scope_cache[code] = v
        return v

    # ------------------------------------------------------------------ accounting
    def _sync(self, c):
        """Bring c.op_ev up to date with the global step counter (c is the running client)."""
        d = self.step - self.mark
        if d:
            c.op_ev += d
            c.since += d
            if c.next_sw < INF:
                c.next_sw -= d
            self.mark = self.step

    def _draw_gap(self):
        u = self.rng.random()
        return int(math.log(1.0 - u) / self.logq) + 1

    def _plan_stop(self, c):
        """Set self.stop: the global step at which the running client c next needs the slow path."""
        if c.op_i < 0:
            self.stop = INF
            return
        d = INF
        ev = c.op_ev
        if c.pending_fault is not None:
            d = 1
        fl = c.faults.get(c.op_i)
        if fl:
            while fl and fl[0][0] <= ev:
                fl.pop(0)
            if fl:
                d = min(d, fl[0][0] - ev)
        gl = c.gcs.get(c.op_i)
        if gl:
            while gl and gl[0] <= ev:
                gl.pop(0)
            if gl:
                d = min(d, gl[0] - ev)
        if c.budgets is not None:
            d = min(d, max(1, c.budgets[c.op_i] - ev + 1))
        k = self.kind
        if k == 'bernoulli':
            d = min(d, max(1, c.next_sw))
        elif k == 'rr':
            d = min(d, max(1, self.q - c.since))
        elif k == 'pct':
            if self.pct_points:
                d = min(d, max(1, self.pct_points[0] - self.step))
        elif k == 'replay':
            rl = c.rp.get(c.op_i)
            if rl:
                while rl and rl[0][0] <= ev:
                    rl.pop(0)
                if rl:
                    d = min(d, rl[0][0] - ev)
        self.stop = self.step + d if d < INF else INF

    # ------------------------------------------------------------------ the event callbacks
    def on_event(self, code, pos):
        sc = self.scope_cache.get(code)
        if sc is None:
            sc = self._in_scope(code)
        if not sc:
            return DISABLE
        self.step = s = self.step + 1
        if s >= self.stop or sc & 4:
            self._slow(code, pos, sc)

    def on_instr(self, code, pos):
        """INSTRUCTION events of the one function that has them enabled locally."""
        sc = self.scope_cache.get(code)
        if not sc:
            return None
        self.step = s = self.step + 1
        if self.full_digest:
            cur = self.current
            self.digest = ((self.digest * 1000003) ^ ((sc >> 3) * 131 + pos * 7 + 3 + (cur.cid if cur is not None else 99))) & 0xFFFFFFFFFFFF
        if s >= self.stop or sc & 4:
            self._slow(code, pos, sc)

    def on_event_full(self, code, pos):
        sc = self.scope_cache.get(code)
        if sc is None:
            sc = self._in_scope(code)
        if not sc:
            return DISABLE
        self.step = s = self.step + 1
        cur = self.current
        self.digest = ((self.digest * 1000003) ^ ((sc >> 3) * 131 + pos * 7 + (cur.cid if cur is not None else 99))) & 0xFFFFFFFFFFFF
        if s >= self.stop or sc & 4:
            self._slow(code, pos, sc)

    def _slow(self, code, pos, sc):
        c = self.current
        if c is None or c.op_i < 0 or threading.get_ident() != c.thread.ident:
            return
        self._sync(c)
        ev = c.op_ev
        self.digest = ((self.digest * 1000003) ^ ((sc >> 3) * 131 + pos * 7 + c.cid + ev * 31)) & 0xFFFFFFFFFFFF
        try:
            # --- faults
            if sc & 4 and self.focus_faults:
                # fault placed *inside* the focus function: at this client's n-th event in it
                hits = self.client_focus_hits.get(c.cid, 0) + 1
                self.client_focus_hits[c.cid] = hits
                ff = self.focus_faults.get((c.cid, hits))
                if ff is not None and c.pending_fault is None:
                    c.pending_fault = ff
            kind = c.pending_fault
            fl = c.faults.get(c.op_i)
            if fl and fl[0][0] == ev:
                kind = fl.pop(0)[1]
            if kind is not None:
                if sc & 2 and not simlock.HELD.get(c.thread.ident):
                    # (never while the client holds a lock of the simulated code base: an asynchronous exception that lands
                    # on the exit path of a `with lock:` statement leaks the lock in CPython itself; that is not the
                    # library's doing, and the fault simply fires at the next event after the lock is released)
                    c.pending_fault = None
                    c.fired.append([c.op_i, ev, kind, '%s:%d' % (code.co_name, pos)])
                    if kind == 'abort':
                        raise SimAbort()
                    if kind == 'mem':
                        raise MemoryError('injected')
                    if kind == 'rec':
                        raise RecursionError('injected')
                else:
                    c.pending_fault = kind
            # --- budget (I3)
            if c.budgets is not None and ev > c.budgets[c.op_i]:
                c.budgets[c.op_i] = INF
                raise SimBudget()
            # --- gc
            gl = c.gcs.get(c.op_i)
            if gl and gl[0] == ev:
                gl.pop(0)
                self.gc_fired.append([c.cid, c.op_i, ev])
                gc.collect()
            # --- switch?
            nxt = self._decide(c, ev, sc)
            if nxt is not None and nxt is not c and len(self.switches) >= MAX_SWITCHES:
                nxt = None      # a run is bounded in hand-overs too (each costs ~0.1 ms): from here on clients run to completion in turn
            if nxt is not None and nxt is not c:
                self._overlap(c)
                # everything that needs a Python-level call is done BEFORE the baton moves: a RecursionError here (the client
                # is at the edge of the interpreter's limit) leaves the schedule where it was
                nxt.since = 0
                if self.kind == 'bernoulli':
                    nxt.next_sw = self._draw_gap()
                self._plan_stop(nxt)
                # the hand-over itself: attribute stores and C calls only
                self.switches.append([c.cid, c.op_i, ev, nxt.cid])
                self.switch_sites.append((c.cid, sc >> 3, pos))
                self.current = nxt
                self.mark = self.step
                nxt.sem.release()
                c.sem.acquire()
                # c has the baton again (the hand-off to c already reset mark / stop for it)
        finally:
            if self.current is c:
                self._plan_stop(c)

    def _handoff(self, nxt):
        """Give the baton to nxt (called by the running client, or by main at start)."""
        self.current = nxt
        nxt.since = 0
        if self.kind == 'bernoulli':
            nxt.next_sw = self._draw_gap()
        self.mark = self.step
        self._plan_stop(nxt)
        nxt.sem.release()

    # ------------------------------------------------------------------ cooperative blocking on locks
    def client_of(self, tid):
        c = self.current
        if c is not None and c.thread is not None and c.thread.ident == tid:
            return c
        return None

    def lock_yield(self, c, owner_tid):
        """Client c (holding the baton) cannot get a lock: run somebody else, deterministically the owner if it
        is a client, else the next runnable client; return when c is scheduled again."""
        self._sync(c)
        self.blocked.add(c.cid)
        nxt = None
        for x in self.clients:
            if x is not c and not x.done and x.cid not in self.blocked and x.thread is not None and x.thread.ident == owner_tid:
                nxt = x
        if nxt is None:
            n = len(self.clients)
            for i in range(1, n):
                x = self.clients[(c.cid + i) % n]
                if not x.done and x.cid not in self.blocked:
                    nxt = x
                    break
        if nxt is None:
            # every other client is finished or itself waiting for a lock: nobody can release this one (e.g. it was
            # leaked by an aborted call).  The waiting op is aborted; reported as a liveness (I3) violation.
            self.blocked.discard(c.cid)
            raise SimDeadlock()
        self.lock_yields += 1
        self.switch_sites.append((c.cid, -1, nxt.cid))
        self._handoff(nxt)
        c.sem.acquire()
        self.blocked.discard(c.cid)

    def _overlap(self, c):
        """Rare-condition probe: which in-scope functions are on the stacks of two clients at once."""
        names = set()
        f = sys._getframe(3)
        left = 80       # innermost frames only: a client thousands of frames deep must not pay for its depth at every switch
        while f is not None and left:
            code = f.f_code
            if self.scope_cache.get(code):
                names.add(code.co_name)
            f = f.f_back
            left -= 1
        c_names = self.stack_names
        c_names[c.cid] = names
        for cid, other in c_names.items():
            if cid != c.cid and not self.clients[cid].done:
                for n in names & other:
                    self.overlap_funcs[n] = self.overlap_funcs.get(n, 0) + 1

    def _runnable_others(self, c):
        return [x for x in self.clients if x is not c and not x.done]

    def _decide(self, c, ev, sc=0):
        k = self.kind
        if k == 'none':
            return None
        if k == 'focus':
            # dense interleaving inside one function: whoever executes a line of the focus function hands over
            # (with probability p) to the next client, which runs freely until it reaches the function too
            if sc & 4:
                self.focus_hits += 1
                if self.rng.random() < self.p:
                    n = len(self.clients)
                    for i in range(1, n):
                        x = self.clients[(c.cid + i) % n]
                        if not x.done:
                            return x
            return None
        if k == 'replay':
            rl = c.rp.get(c.op_i)
            if rl and rl[0][0] == ev:
                n = rl.pop(0)[1]
                x = self.clients[n] if 0 <= n < len(self.clients) else None
                if x is None or x.done:
                    return None
                return x
            return None
        if k == 'bernoulli':
            if c.next_sw <= 0:
                c.next_sw = self._draw_gap()
                o = self._runnable_others(c)
                if o:
                    return o[self.rng.randrange(len(o))]
            return None
        if k == 'rr':
            if c.since >= self.q:
                c.since = 0
                n = len(self.clients)
                for i in range(1, n):
                    x = self.clients[(c.cid + i) % n]
                    if not x.done:
                        return x
            return None
        if k == 'pct':
            while self.pct_points and self.step >= self.pct_points[0]:
                self.pct_points.pop(0)
                c.prio = self.pct_low
                self.pct_low -= 1
            best = c
            for x in self.clients:
                if not x.done and x.prio > best.prio:
                    best = x
            return best if best is not c else None
        return None

    # ------------------------------------------------------------------ client life cycle
    def _op_start(self, c, i):
        if self.lazy_events:
            # single client, no pre-emption: only ops with a planned fault / gc point need event delivery at all.
            # (In ops run without events the I3 step budget cannot be enforced; a hang there ends in the wall-clock
            # watchdog, i.e. exit 2, never in a pass.)
            need = bool(c.faults.get(i) or c.gcs.get(i))
            if need != self.events_on:
                mon.set_events(TOOL, self.ev_kind if need else 0)
                self.events_on = need
        self._sync(c)
        c.op_ev = 0
        c.op_i = i
        self.mark = self.step
        self._plan_stop(c)

    def _op_end(self, c):
        self._sync(c)
        c.ev += c.op_ev
        c.op_evs.append(c.op_ev)
        c.op_i = -1
        self.stop = INF

    def _client_main(self, c):
        c.sem.acquire()
        try:
            for i, op in enumerate(c.ops):
                self._op_start(c, i)
                try:
                    obs = self.runner(op, c.env)
                except SimAbort:
                    obs = 'abort'
                except SimBudget:
                    obs = 'budget'
                except SimDeadlock:
                    obs = 'deadlock'
                except (MemoryError, RecursionError) as e:
                    obs = 'fault: ' + exc_obs(e)
                except BaseException as e:  # noqa
                    obs = 'base-' + exc_obs(e)
                self._op_end(c)
                c.results.append(obs)
        except BaseException as e:  # harness failure inside a client
            import traceback
            self.error = 'client %d: %r\n%s' % (c.cid, e, traceback.format_exc())
        finally:
            c.op_i = -1
            self._finish(c)

    def _finish(self, c):
        c.done = True
        self.stop = INF
        rest = [x for x in self.clients if not x.done]
        if not rest:
            self.current = None
            self.done_sem.release()
            return
        nxt = None
        if self.kind == 'replay':
            n = self.rp_fin.get(c.cid)
            if n is not None and 0 <= n < len(self.clients) and not self.clients[n].done:
                nxt = self.clients[n]
        elif self.kind == 'pct':
            nxt = max(rest, key=lambda x: x.prio)
        elif self.kind in ('bernoulli',):
            nxt = rest[self.rng.randrange(len(rest))]
        if nxt is None:
            nxt = rest[0]
        self.finishes.append([c.cid, nxt.cid])
        self._handoff(nxt)

    def run(self):
        """Run all clients to completion.  Returns True on normal completion, False on watchdog."""
        ev = mon.events.LINE if self.spec.get('gran', 'line') == 'line' else mon.events.INSTRUCTION
        mon.use_tool_id(TOOL, 'dsim')
        mon.register_callback(TOOL, ev, self.on_event_full if self.full_digest else self.on_event)
        local_instr = self.instr_key is not None and ev != mon.events.INSTRUCTION
        if local_instr:
            mon.register_callback(TOOL, mon.events.INSTRUCTION, self.on_instr)
        for c in self.clients:
            t = threading.Thread(target=self._client_main, args=(c,), name='client-%d' % c.cid, daemon=True)
            c.thread = t
            t.start()
        self.ev_kind = ev
        self.lazy_events = bool(self.spec.get('lazy_events')) and self.kind == 'none' and len(self.clients) == 1
        self.events_on = not self.lazy_events
        if self.events_on:
            mon.set_events(TOOL, ev)
        simlock.CURRENT[0] = self
        first = self.clients[0]
        if self.kind == 'replay':
            f = self.spec['strategy'].get('first', 0)
            if 0 <= f < len(self.clients):
                first = self.clients[f]
        elif self.kind == 'pct':
            first = max(self.clients, key=lambda x: x.prio)
        elif self.kind == 'bernoulli':
            first = self.clients[self.rng.randrange(len(self.clients))]
        self.first = first.cid
        self._handoff(first)
        ok = self.done_sem.acquire(timeout=self.watchdog_s)
        simlock.CURRENT[0] = None
        for code in self.instr_codes:
            mon.set_local_events(TOOL, code, 0)
        mon.set_events(TOOL, 0)
        if local_instr:
            mon.register_callback(TOOL, mon.events.INSTRUCTION, None)
        mon.register_callback(TOOL, ev, None)
        mon.free_tool_id(TOOL)
        if ok:
            for c in self.clients:
                c.thread.join(timeout=5)
        return ok


def count_events(fn, scope, gran='line'):
    """Run fn() single-threaded with event counting only (used for the reference event counts and
    for the transparency self-check: monitoring must not change an observable)."""
    prefixes = tuple(scope)
    cache = {}
    n = [0]

    def cb(code, pos):
        sc = cache.get(code)
        if sc is None:
            sc = cache[code] = code.co_filename.startswith(prefixes) and code.co_name not in NO_SWITCH_NAMES
        if not sc:
            return DISABLE
        n[0] += 1

    ev = mon.events.LINE if gran == 'line' else mon.events.INSTRUCTION
    mon.use_tool_id(TOOL, 'dsim-count')
    mon.register_callback(TOOL, ev, cb)
    mon.set_events(TOOL, ev)
    try:
        r = fn()
    finally:
        mon.set_events(TOOL, 0)
        mon.register_callback(TOOL, ev, None)
        mon.free_tool_id(TOOL)
    return r, n[0]
