"""Cooperative locks for code under simulation (the "intercepted synchronisation point" of the brief).

A baton-scheduled client that blocks inside a C-level lock.acquire() on a lock held by a *parked* client
would dead-lock the simulation: nobody can run.  Therefore, before the library and SQLAlchemy are imported
(in the zygote), `threading.Lock` / `threading.RLock` are replaced by factories that hand out SimLock /
SimRLock objects **to callers in the simulated code base only** (modules mindsdb_sql, sly, sqlalchemy);
every other caller (threading internals, logging, ...) still gets the real thing.

A SimLock behaves like a real lock, except that a client thread that cannot get it yields the baton
(deterministically: to the owner if the owner is a client, else to the next runnable client) and retries
when it is scheduled again.  If nobody else can run, the lock can never be released: the op is aborted with
SimDeadlock, which the harness reports as a liveness (I3) violation.
"""
import _thread
import sys
import threading

_real_lock = _thread.allocate_lock
_real_rlock = threading.RLock
_get_ident = _thread.get_ident
CURRENT = [None]      # the active Sim of this process, if any
SCOPED = ('mindsdb_sql', 'sly', 'sqlalchemy')
STATS = {'created': 0, 'contended': 0}
HELD = {}             # thread id -> number of SimLocks it holds (faults are not injected while > 0)


class SimDeadlock(BaseException):
    """A client waits for a lock that no runnable client can release."""


class SimLock:
    __slots__ = ('_l', '_owner')

    def __init__(self):
        self._l = _real_lock()
        self._owner = None
        STATS['created'] += 1

    def _took(self):
        me = _get_ident()
        self._owner = me
        HELD[me] = HELD.get(me, 0) + 1

    def acquire(self, blocking=True, timeout=-1):
        if self._l.acquire(False):
            self._took()
            return True
        if not blocking:
            return False
        sim = CURRENT[0]
        c = sim.client_of(_get_ident()) if sim is not None else None
        if c is None:
            ok = self._l.acquire(True, timeout)
            if ok:
                self._took()
            return ok
        STATS['contended'] += 1
        while True:
            sim.lock_yield(c, self._owner)
            if self._l.acquire(False):
                self._took()
                return True

    def release(self):
        o = self._owner
        if o is not None and HELD.get(o, 0) > 0:
            HELD[o] -= 1
        self._owner = None
        self._l.release()

    def locked(self):
        return self._l.locked()

    def __enter__(self):
        return self.acquire()

    def __exit__(self, *a):
        self.release()

    def _at_fork_reinit(self):
        self._l = _real_lock()
        self._owner = None


class SimRLock:
    __slots__ = ('_block', '_owner', '_count')

    def __init__(self):
        self._block = SimLock()
        self._owner = None
        self._count = 0

    def acquire(self, blocking=True, timeout=-1):
        me = _get_ident()
        if self._owner == me:
            self._count += 1
            return True
        ok = self._block.acquire(blocking, timeout)
        if ok:
            self._owner = me
            self._count = 1
        return ok

    def release(self):
        if self._owner != _get_ident():
            raise RuntimeError('cannot release un-acquired lock')
        self._count -= 1
        if self._count == 0:
            self._owner = None
            self._block.release()

    def __enter__(self):
        return self.acquire()

    def __exit__(self, *a):
        self.release()

    # used by threading.Condition
    def _is_owned(self):
        return self._owner == _get_ident()

    def _release_save(self):
        st = (self._count, self._owner)
        self._count = 0
        self._owner = None
        self._block.release()
        return st

    def _acquire_restore(self, st):
        self._block.acquire()
        self._count, self._owner = st

    def _at_fork_reinit(self):
        self._block._at_fork_reinit()
        self._owner = None
        self._count = 0


def _in_scope():
    try:
        name = sys._getframe(2).f_globals.get('__name__', '')
    except ValueError:
        return False
    return name.split('.', 1)[0] in SCOPED


def Lock():
    if _in_scope():
        return SimLock()
    return _real_lock()


def RLock():
    if _in_scope():
        return SimRLock()
    return _real_rlock()


def install():
    """Must run before the simulated code base is imported."""
    threading.Lock = Lock
    threading.RLock = RLock
