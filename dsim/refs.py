"""Reference table (DESIGN §3.6): every op's observable computed in its own forked child of a
hash-seed-0 zygote, single threaded, pristine catalog copies, fresh renderer."""
from . import ops as O
from .child import dg, corpus
from .pool import HarnessError


def all_ops(c=None):
    c = c or corpus()
    seen = {}
    for op in c['pool']:
        seen.setdefault(O.op_key(op), op)
    for f in sorted(c['families']):
        for op in c['families'][f]:
            seen.setdefault(O.op_key(op), op)
    for op in c['probes']:
        seen.setdefault(O.op_key(op), op)
    return seen


def compute(pool, oplist, count=True):
    """-> (ref, twice) with ref = {op_key: {'obs': str, 'dg': str, 'ev': int}} and twice = list of ops
    whose second execution in the same (otherwise idle) process gave a different observable than the
    first.  The second execution runs under event counting, so such an op is either a history
    dependence of the library or non-transparent instrumentation; the caller decides which by
    re-running [op, op] as an ordinary simulated history."""
    ref = {}
    twice = []

    def on(spec, res):
        if 'harness_error' in res:
            raise HarnessError('reference child failed: ' + res['harness_error'])
        rec = res['refs'][0]
        k = O.op_key(spec['ops'][0])
        ref[k] = {'obs': rec['obs'], 'dg': dg(rec['obs']), 'ev': rec.get('ev', 3000)}
        if 'obs2' in rec:
            twice.append(spec['ops'][0])

    pool.run_jobs([(None, {'cmd': 'ref', 'ops': [op], 'count': count, 'wall_limit_s': 120}) for op in oplist], on_result=on)
    return ref, twice


class LazyRef(dict):
    """Reference table filled on demand: `ensure(ops)` computes the missing entries (each op still in its own
    forked child of a hash-seed-0 zygote).  The quick tier only pays for the ops its runs really use."""

    def __init__(self, pool):
        super().__init__()
        self.pool = pool
        self.twice = []
        self.seconds = 0.0

    def ensure(self, ops, count=True):
        """count=False: only the observable is needed (ops that run without event delivery: long histories, S3); the
        I3 budget of such an op, should it ever run under events, is derived from the corpus hint instead."""
        import time
        missing = {}
        for op in ops:
            k = O.op_key(op)
            if k not in missing and (k not in self or (count and self[k].get('ev') is None)):
                missing[k] = op
        if not missing:
            return []
        t = time.time()
        r, tw = compute(self.pool, list(missing.values()), count=count)
        if not count:
            for v in r.values():
                v['ev'] = None
        self.update(r)
        self.twice.extend(tw)
        self.seconds += time.time() - t
        return tw
