"""Reference table (DESIGN §3.6): every op's observable computed in its own forked child of a
hash-seed-0 zygote, single threaded, pristine catalog copies, fresh renderer."""
from . import ops as O
from .child import dg, corpus
from .pool import HarnessError


def all_ops(c=None):
    c = c or corpus()
    seen = {}
    for op in c['pool']:
        seen.setdefault(O.op_key(op), op)
    for f in sorted(c['families']):
        for op in c['families'][f]:
            seen.setdefault(O.op_key(op), op)
    for op in c['probes']:
        seen.setdefault(O.op_key(op), op)
    return seen


def compute(pool, oplist, count=True):
    """-> (ref, twice) with ref = {op_key: {'obs': str, 'dg': str, 'ev': int}} and twice = list of ops
    whose second execution in the same (otherwise idle) process gave a different observable than the
    first.  The second execution runs under event counting, so such an op is either a history
    dependence of the library or non-transparent instrumentation; the caller decides which by
    re-running [op, op] as an ordinary simulated history."""
    ref = {}
    twice = []

    def on(spec, res):
        if 'harness_error' in res:
            raise HarnessError('reference child failed: ' + res['harness_error'])
        rec = res['refs'][0]
        k = O.op_key(spec['ops'][0])
        ref[k] = {'obs': rec['obs'], 'dg': dg(rec['obs']), 'ev': rec.get('ev', 3000)}
        if 'obs2' in rec:
            twice.append(spec['ops'][0])

    pool.run_jobs([(None, {'cmd': 'ref', 'ops': [op], 'count': count, 'wall_limit_s': 120}) for op in oplist], on_result=on)
    return ref, twice
