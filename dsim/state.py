"""Fingerprint of the state that outlives a call: module-level and class-level data of the library (and of the SQLAlchemy
dialect classes it configures), function default objects, and the objects a run shares between its clients (renderer
instances with their dialect objects, catalog objects).

Used ONLY to direct the schedule search (which functions write state that other calls can see -> dense pre-emption there),
never as an oracle: a change in such state is not a violation, only a wrong result is."""
import os
import sys
import types

SIMPLE = (int, float, bool, str, bytes, type(None))


def _dg(v, depth=0):
    if isinstance(v, SIMPLE):
        return repr(v)[:80]
    if depth >= 3:
        try:
            return '%s#%d' % (type(v).__name__, len(v))
        except Exception:
            return type(v).__name__
    if isinstance(v, dict):
        items = list(v.items())[:60]
        try:
            items = sorted(items, key=lambda kv: repr(kv[0]))
        except Exception:
            pass
        return 'D%d{%s}' % (len(v), ','.join('%s:%s' % (_dg(k, depth + 1), _dg(x, depth + 1)) for k, x in items))
    if isinstance(v, (list, tuple)):
        return 'L%d[%s]' % (len(v), ','.join(_dg(x, depth + 1) for x in list(v)[:60]))
    if isinstance(v, (set, frozenset)):
        return 'S%d{%s}' % (len(v), ','.join(sorted(_dg(x, depth + 1) for x in list(v)[:200])))
    if isinstance(v, (types.FunctionType, types.MethodType, types.BuiltinFunctionType, type, types.ModuleType)):
        return type(v).__name__
    try:
        from mindsdb_sql.parser.ast.base import ASTNode
        if isinstance(v, ASTNode):
            return 'AST(%s|%s|%s|%s)' % (v.to_tree(), _dg(getattr(v, 'alias', None), depth + 1), getattr(v, 'parentheses', None), _node_attrs(v))
    except Exception:
        pass
    d = getattr(v, '__dict__', None)
    if isinstance(d, dict) and depth < 2:
        return '%s<%s>' % (type(v).__name__, _dg({k: x for k, x in d.items() if not k.startswith('__')}, depth + 1))
    try:
        return '%s#%d' % (type(v).__name__, len(v))
    except Exception:
        return type(v).__name__


def _node_attrs(root, limit=600):
    """Everything a statement tree carries besides what to_tree() shows: for every node reachable from `root`, its attributes that
    are neither nodes nor lists (scalars as they are; any other object by its own scalar attributes, one level).  A memo, a
    flag or a holder object that some code hangs on a node of a shared tree shows here."""
    from mindsdb_sql.parser.ast.base import ASTNode
    out, stack, seen = [], [root], set()
    while stack and len(out) < limit:
        x = stack.pop()
        if id(x) in seen:
            continue
        seen.add(id(x))
        if isinstance(x, (list, tuple)):
            stack.extend(x)
            continue
        if isinstance(x, dict):
            stack.extend(x.values())
            continue
        if not isinstance(x, ASTNode):
            continue
        row = [type(x).__name__]
        for k, val in sorted(vars(x).items()):
            if isinstance(val, (ASTNode, list, tuple, dict)):
                stack.append(val)
                if isinstance(val, (list, tuple)):
                    row.append('%s#%d' % (k, len(val)))
            elif isinstance(val, SIMPLE):
                row.append('%s=%r' % (k, val if not isinstance(val, str) else val[:40]))
            else:
                d = getattr(val, '__dict__', None)
                row.append('%s:%s<%s>' % (k, type(val).__name__, ','.join('%s=%r' % (a, (b if isinstance(b, SIMPLE) else (type(b).__name__, len(b) if hasattr(b, '__len__') else 0)))
                                                                         for a, b in sorted(d.items())) if isinstance(d, dict) else ''))
        out.append('/'.join(str(r)[:80] for r in row))
    return ';'.join(out)


def _is_data(v):
    return not isinstance(v, (types.FunctionType, types.MethodType, types.BuiltinFunctionType, type, types.ModuleType,
                              property, staticmethod, classmethod, types.MemberDescriptorType, types.GetSetDescriptorType,
                              types.WrapperDescriptorType, types.MethodDescriptorType))


def roots(repo_prefixes, shared_objects=()):
    """-> list of (path, getter) pairs; a getter returns the current value."""
    out = []
    for mname, mod in sorted(sys.modules.items()):
        f = getattr(mod, '__file__', None)
        if not f or not f.startswith(repo_prefixes):
            continue
        for k, v in list(vars(mod).items()):
            if k.startswith('__'):
                continue
            if isinstance(v, type) and getattr(v, '__module__', None) == mname:
                for ck, cv in list(vars(v).items()):
                    if ck.startswith('__'):
                        continue
                    if isinstance(cv, types.FunctionType):
                        if cv.__defaults__ or cv.__kwdefaults__:
                            out.append(('%s.%s.%s()defaults' % (mname, k, ck), (lambda fn=cv: (fn.__defaults__, fn.__kwdefaults__))))
                    elif _is_data(cv):
                        out.append(('%s.%s.%s' % (mname, k, ck), (lambda c=v, a=ck: c.__dict__.get(a))))
            elif isinstance(v, types.FunctionType) and getattr(v, '__module__', None) == mname:
                if v.__defaults__ or v.__kwdefaults__:
                    out.append(('%s.%s()defaults' % (mname, k), (lambda fn=v: (fn.__defaults__, fn.__kwdefaults__))))
                for attr in list(vars(v)):
                    out.append(('%s.%s.%s' % (mname, k, attr), (lambda fn=v, a=attr: fn.__dict__.get(a))))
            elif _is_data(v):
                out.append(('%s.%s' % (mname, k), (lambda m=mod, a=k: m.__dict__.get(a))))
    # SQLAlchemy dialect classes the renderer configures
    try:
        from sqlalchemy.dialects import mysql, postgresql, sqlite, mssql, oracle
        for m in (mysql, postgresql, sqlite, mssql, oracle):
            cls = m.dialect
            for k, v in list(vars(cls).items()):
                if not k.startswith('__') and _is_data(v):
                    out.append(('sqlalchemy:%s.%s' % (cls.__name__, k), (lambda c=cls, a=k: c.__dict__.get(a))))
            out.append(('sqlalchemy:%s#attrs' % cls.__name__, (lambda c=cls: sorted(k for k in vars(c) if not k.startswith('__')))))
    except Exception:
        pass
    for name, obj in shared_objects:
        out.append((name, (lambda o=obj: o)))
    out.extend(interp_roots())
    return out


def interp_roots():
    """Settings of the interpreter that every thread of the process shares.  A call may change one and put it back before it
    returns, so these are also looked at line by line (find_write_functions), not only between ops."""
    import decimal
    import gc
    import locale
    import warnings
    return [
        ('interp:recursionlimit', sys.getrecursionlimit),
        ('interp:switchinterval', sys.getswitchinterval),
        ('interp:gc', (lambda: (gc.isenabled(), gc.get_threshold()))),
        ('interp:warnings', (lambda: len(warnings.filters))),
        ('interp:decimal', (lambda: repr(decimal.getcontext()))),
        ('interp:locale', (lambda: locale.setlocale(locale.LC_ALL))),
        ('interp:sys.path', (lambda: len(sys.path))),
        ('interp:cwd-env', (lambda: (os.getcwd(), len(os.environ), os.environ.get('TZ')))),
    ]


def fingerprint(rootlist):
    fp = {}
    for path, get in rootlist:
        try:
            fp[path] = _dg(get())
        except Exception as e:  # noqa
            fp[path] = 'ERR:' + type(e).__name__
    return fp


def light(v, depth=0):
    """Cheap digest for the per-line pass: sizes and scalars, elements only of small containers."""
    if isinstance(v, SIMPLE):
        return v if not isinstance(v, str) or len(v) < 64 else (len(v), v[:32])
    if isinstance(v, (dict, list, tuple, set, frozenset)):
        n = len(v)
        if n > 12 or depth >= 2:
            return (type(v).__name__, n)
        if isinstance(v, dict):
            return ('d', n, tuple((repr(k)[:32], light(x, depth + 1)) for k, x in v.items()))
        if isinstance(v, (set, frozenset)):
            return ('s', n, tuple(sorted(repr(x)[:32] for x in v)))
        return ('l', n, tuple(light(x, depth + 1) for x in v))
    d = getattr(v, '__dict__', None)
    if isinstance(d, dict) and depth < 1:
        return (type(v).__name__, tuple((k, light(x, depth + 2)) for k, x in d.items() if not k.startswith('__')))
    return type(v).__name__


def _tree_quick(v):
    """Per-line digest of a shared statement tree: what to_tree() shows plus alias / parentheses (the full digest with the hidden
    node attributes is taken between ops only: at every line it would cost more than the run it directs)."""
    try:
        return 'AST(%s|%s|%s)' % (v.to_tree(), _dg(getattr(v, 'alias', None), 1), getattr(v, 'parentheses', None))
    except Exception:
        return type(v).__name__


def fingerprint_light(rootlist):
    out = []
    for path, get in rootlist:
        try:
            # a shared statement tree is small and its edits are deep inside (a column of a CREATE TABLE): full digest
            out.append(_tree_quick(get()) if path.startswith('tree[') else light(get()))
        except Exception as e:  # noqa
            out.append('ERR')
    return out
