"""Operation alphabet of the simulated clients and the canonical observables (DESIGN §3.4).

An op is a JSON-able dict:
  {"k": "parse",  "d": dialect, "sql": text}
  {"k": "plan",   "sql": text, "cat": catalog_id, "d": dialect (default mindsdb)}
  {"k": "render", "d": parse dialect, "sql": text, "rd": renderer dialect, "fb": with_failback[, "wp": true -> get_exec_params(with_params=True)]}
  {"k": "flow",   "sql": text, "cat": catalog_id, "rd": renderer dialect}     parse -> plan -> render step queries -> parse again
The *observable* of an op is a canonical string that contains everything a caller can see:
the tree, its printed form, every field of every plan step, the rendered text, or the class and
the full message of the exception.
"""
import copy
import json
import re

_ADDR = re.compile(r'0x[0-9a-fA-F]{6,}')
_TID = re.compile(r'\bt_(\d{6,})\b')


class SimAbort(BaseException):
    """Injected asynchronous abort of a call (fault kind F2)."""


def op_key(op):
    return json.dumps(op, sort_keys=True, ensure_ascii=False)


def norm_text(s, keep_addr=False):
    """The one deliberate, narrow relaxation of DESIGN §3.4: memory addresses inside messages of third-party exceptions.
    (Until round 16 id()-derived `t_<id>` names were renamed by first occurrence too.  No observable of the pinned tree
    contains one -- the planner uses them internally only -- so the renaming relaxed nothing there and hid a seeded change that
    lets such a name reach a plan step: an address in a result is exactly the dependence C20 forbids.  Removed.)"""
    if not keep_addr:
        s = _ADDR.sub('0xADDR', s)
    return s


def exc_obs(e):
    msg = 'err: %s: %s' % (type(e).__name__, e)
    if (type(e).__module__ or '').startswith('mindsdb_sql'):
        # the library's own exceptions (ParsingException, PlanningException, RenderError): the message is part of the
        # result as it stands; a memory address in it is a dependence on what else happened in the process.  Addresses are
        # only masked in messages of third-party exceptions (SQLAlchemy) that merely pass through.
        return norm_text(msg, keep_addr=True)
    return norm_text(msg)


def dump_value(v, depth=0):
    """Structural dump of anything that can sit in a plan step."""
    from mindsdb_sql.parser.ast.base import ASTNode
    from mindsdb_sql.planner.steps import PlanStep
    from mindsdb_sql.planner.step_result import Result
    if depth > 12:
        return '<deep>'
    if isinstance(v, ASTNode):
        try:
            tree = v.to_tree()
        except Exception as e:  # some node kinds have no to_tree
            tree = '<to_tree failed: %s>' % type(e).__name__
        try:
            s = v.to_string()
        except Exception as e:
            s = '<to_string failed: %s>' % type(e).__name__
        return 'AST{%s ## %s}' % (tree, s)
    if isinstance(v, PlanStep):
        return dump_step(v, depth + 1)
    if isinstance(v, Result):
        return 'Result(%r)' % (v.step_num,)
    if isinstance(v, dict):
        return '{' + ', '.join('%s: %s' % (dump_value(k, depth + 1), dump_value(x, depth + 1)) for k, x in v.items()) + '}'
    if isinstance(v, (list, tuple)):
        o, c = ('[', ']') if isinstance(v, list) else ('(', ')')
        return o + ', '.join(dump_value(x, depth + 1) for x in v) + c
    if isinstance(v, (set, frozenset)):
        return 'set{' + ', '.join(sorted(dump_value(x, depth + 1) for x in v)) + '}'
    if v is None or isinstance(v, (bool, int, float, str, bytes)):
        return repr(v)
    # objects with default repr would leak an address: dump class and fields instead
    d = getattr(v, '__dict__', None)
    if isinstance(d, dict):
        return '%s<%s>' % (type(v).__name__, ', '.join('%s=%s' % (k, dump_value(x, depth + 1)) for k, x in d.items()))
    return '%s<%s>' % (type(v).__name__, _ADDR.sub('0xADDR', repr(v)))


def dump_step(step, depth=0):
    fields = []
    for k, v in vars(step).items():
        if k == 'result_data':
            continue
        fields.append('%s=%s' % (k, dump_value(v, depth + 1)))
    return '%s(%s)' % (type(step).__name__, '; '.join(fields))


def dump_steps(steps):
    return norm_text('\n'.join(dump_step(s) for s in steps))


def dump_ast(ast):
    from mindsdb_sql.parser.ast.base import ASTNode
    if isinstance(ast, ASTNode):
        try:
            tree = ast.to_tree()
        except Exception as e:
            tree = '<to_tree failed: %s: %s>' % (type(e).__name__, e)
        try:
            s = ast.to_string()
        except Exception as e:
            s = '<to_string failed: %s: %s>' % (type(e).__name__, e)
        return norm_text('ok: %s\n%s' % (tree, s))
    return norm_text('ok: ' + dump_value(ast))


# ---------------------------------------------------------------------------------------------
# execution environment of one client: which catalog / renderer objects it sees (sharing knobs)
# ---------------------------------------------------------------------------------------------
class Env:
    """Holds the catalog objects and renderer objects visible to a client (sharing knobs, F7).

    catalogs: dict id -> catalog dict (JSON form from the corpus).  `cat_mode`:
       'shared'  the very same python objects are handed to every call of every client
       'client'  one deep copy per client
       'op'      a fresh deep copy per op
    `meta_share`: in 'shared'/'client' mode, catalogs whose predictor_metadata (resp. integrations)
       are JSON-equal get the *same* list/dict object, as a server that keeps one metadata list and
       plans with different namespaces would.
    renderers: `rnd_mode` in {'shared','client','op'} likewise.
    """

    def __init__(self, catalogs, cat_mode='op', rnd_mode='op', meta_share=False, shared=None, edits_in_place=False):
        self.edits_in_place = edits_in_place
        self.cat_mode = cat_mode
        self.rnd_mode = rnd_mode
        self._trees = shared._trees if (shared is not None and getattr(shared, '_trees', None) is not None) else None
        self._pristine = catalogs
        self._variants = [k for k in catalogs if '+' in k]
        if shared is not None and cat_mode == 'shared':
            self._cats = shared._cats
        elif cat_mode != 'op':
            self._cats = copy.deepcopy(catalogs)
            if meta_share:
                pool = {}
                edited = {k.split('+', 1)[0] for k in catalogs if '+' in k}
                for cid in sorted(self._cats):
                    if '+' in cid or cid in edited:
                        continue          # catalogs that get edited in place keep objects of their own
                    cat = self._cats[cid]
                    for f in ('predictor_metadata', 'integrations'):
                        v = cat.get(f)
                        if v:
                            cat[f] = pool.setdefault(f + json.dumps(v, sort_keys=True), v)
        else:
            self._cats = None
        if shared is not None and rnd_mode == 'shared':
            self._rnd = shared._rnd
        else:
            self._rnd = {}

    def catalog(self, cid):
        if cid is None:
            return {}
        if self.cat_mode == 'op':
            return copy.deepcopy(self._pristine[cid])
        if not self.edits_in_place:
            # several clients share these objects: a caller editing them while another call is planning would be the
            # caller's own race, so here the variants of a catalog are separate objects
            return self._cats[cid]
        if '+' in cid:
            # a variant 'X+eN' is the caller EDITING catalog X in place between calls: the very same list / dict objects
            # as X (and as every other variant of X), their content brought to the variant's content
            base = self._cats[cid.split('+', 1)[0]]
            want = self._pristine[cid]
            for f in ('integrations', 'predictor_metadata'):
                cur, new = base.get(f), copy.deepcopy(want.get(f))
                if isinstance(cur, list) and isinstance(new, list):
                    cur[:] = new
                elif isinstance(cur, dict) and isinstance(new, dict):
                    cur.clear()
                    cur.update(new)
                else:
                    base[f] = new
            for f in ('predictor_namespace', 'default_namespace'):
                base[f] = want.get(f)
            return base
        if any(k.startswith(cid + '+') for k in self._variants):
            # the base content again (the caller undid its edit), same objects
            self._variants_sync(cid)
        return self._cats[cid]

    def _variants_sync(self, cid):
        base, want = self._cats[cid], self._pristine[cid]
        for f in ('integrations', 'predictor_metadata'):
            cur, new = base.get(f), copy.deepcopy(want.get(f))
            if isinstance(cur, list) and isinstance(new, list):
                cur[:] = new
            elif isinstance(cur, dict) and isinstance(new, dict):
                cur.clear()
                cur.update(new)
            else:
                base[f] = new
        for f in ('predictor_namespace', 'default_namespace'):
            base[f] = want.get(f)

    @staticmethod
    def _new_renderer(rd):
        """rd is one of the renderer's dialect names, or 'cls:<name>' = the SQLAlchemy dialect *class* handed to the
        constructor (the other accepted form)."""
        from mindsdb_sql.render.sqlalchemy_render import SqlalchemyRender
        if rd == 'cls:custom_pg':
            return SqlalchemyRender(custom_pg_dialect())
        if rd.startswith('cls:'):
            import importlib
            return SqlalchemyRender(importlib.import_module('sqlalchemy.dialects.' + rd[4:]).dialect)
        return SqlalchemyRender(rd)

    def renderer(self, rd):
        if self.rnd_mode == 'op':
            return self._new_renderer(rd)
        r = self._rnd.get(rd)
        if r is None:
            r = self._rnd[rd] = self._new_renderer(rd)
        return r

    def shared_tree(self, op):
        """'tree_share' runs: the statements to render were parsed once before the clients started and every render of a
        (dialect, text) gets that same tree object -- a caller that keeps parsed statements and hands them to several threads.
        Only for render ops: rendering is not entitled to consume its input (planning is)."""
        t = self._trees
        if t is None:
            return None
        return t.get((op.get('d'), op.get('sql'), op.get('ast')))

    def prebuild_trees(self, ops):
        from mindsdb_sql import parse_sql
        self._trees = {}
        for op in ops:
            if op.get('k') == 'plan' and op.get('sql') and not op.get('ast'):
                # a statement cache: the text is parsed once, every plan op gets a COPY of the template (copies must be independent)
                key = ('tpl', op.get('d', 'mindsdb'), op['sql'])
                if key not in self._trees:
                    try:
                        self._trees[key] = parse_sql(op['sql'], dialect=op.get('d', 'mindsdb'))
                    except Exception:
                        self._trees[key] = None
                continue
            if op.get('k') != 'render':
                continue
            key = (op.get('d'), op.get('sql'), op.get('ast'))
            if key in self._trees:
                continue
            try:
                self._trees[key] = build_tree(op['ast']) if op.get('ast') else parse_sql(op['sql'], dialect=op['d'])
            except Exception:
                self._trees[key] = None
        self._trees = {k: v for k, v in self._trees.items() if v is not None}

    def prebuild_renderers(self, dialects):
        """Shared renderers are created before the clients start so that who-creates-it is not
        schedule dependent harness behaviour."""
        if self.rnd_mode != 'op':
            for rd in dialects:
                self.renderer(rd)


_CUSTOM = {}


def custom_pg_dialect():
    """A caller-defined dialect: subclass of the stock PostgreSQL dialect (same .name) whose compiler writes
    FETCH FIRST n ROWS ONLY instead of LIMIT n."""
    if 'pg' not in _CUSTOM:
        from sqlalchemy.dialects import postgresql

        class FetchFirstCompiler(postgresql.dialect.statement_compiler):
            def limit_clause(self, select, **kw):
                text = ''
                if select._limit_clause is not None:
                    text += ' \n FETCH FIRST ' + self.process(select._limit_clause, **kw) + ' ROWS ONLY'
                if select._offset_clause is not None:
                    text += ' OFFSET ' + self.process(select._offset_clause, **kw)
                return text

        class FetchFirstPG(postgresql.dialect):
            statement_compiler = FetchFirstCompiler
            supports_statement_cache = False

        _CUSTOM['pg'] = FetchFirstPG
    return _CUSTOM['pg']


def build_tree(name):
    """Trees that cannot be obtained from parse_sql (callers of the renderer build them directly): op field 'ast'."""
    from mindsdb_sql.parser import ast as A
    if name.startswith('insert_plainq_'):
        odd = ['growth%', 'a b', '%s', '%(x)s', ':p', 'q?', '$1', '{x}', "it's", 'x\\y', 'Üñí', 'a"b', '100%%', 'sel-ect'][int(name.rsplit('_', 1)[1])]
        return A.Insert(table=A.Identifier(parts=['tbl_a']), columns=[odd, 'b'], values=[[1, odd], [2, 'plain']], is_plain=True)
    if name.startswith('insert_plain'):
        rows = {'insert_plain_1': [[1, 'a']], 'insert_plain_2': [[1, 'a'], [2, 'b']], 'insert_plain_3': [[1.5, None], [True, 'x y'], [3, "it's"]]}[name]
        return A.Insert(table=A.Identifier('tbl_a'), columns=['a', 'b'], values=[list(r) for r in rows], is_plain=True)
    if name == 'insert_consts':
        return A.Insert(table=A.Identifier('tbl_a'), columns=[A.Identifier('a'), A.Identifier('b')], values=[[A.Constant(1), A.Constant('a')]])
    if name == 'select_built':
        return A.Select(targets=[A.Identifier('a'), A.Constant(1, alias=A.Identifier('one'))], from_table=A.Identifier('db.tbl'),
                        where=A.BinaryOperation('=', args=[A.Identifier('b'), A.Constant('x')]), limit=A.Constant(3))
    if name.startswith('chain_'):
        # chain_<and|or>_<n>_<plain|join|pred>: a long condition list built by the caller (a BI tool's filter turned into a tree
        # without going through the parser): left-deep, as deep as it is long
        _, bop, n, shape = name.split('_')
        cond = None
        for i in range(int(n)):
            c = A.BinaryOperation('=', args=[A.Identifier('t1.c%d' % i), A.Constant(i)])
            cond = c if cond is None else A.BinaryOperation(bop, args=[cond, c])
        t1 = A.Identifier('int.tab1', alias=A.Identifier('t1'))
        if shape == 'plain':
            return A.Select(targets=[A.Star()], from_table=t1, where=cond)
        right = A.Identifier('int2.tab2', alias=A.Identifier('t2')) if shape == 'join' else A.Identifier('mindsdb.pred', alias=A.Identifier('m'))
        kw = {'condition': A.BinaryOperation('=', args=[A.Identifier('t1.a'), A.Identifier('t2.a')])} if shape == 'join' else {}
        return A.Select(targets=[A.Star()], from_table=A.Join(left=t1, right=right, join_type='join', **kw), where=cond)
    if name.startswith('wide_'):
        # wide_<n>_<tag>_<plain|join|consts>: a statement with n distinct names (or constants) built by the caller (a BI tool
        # that selects every column of a wide table): breadth instead of depth
        _, n, tag, shape = name.split('_')
        n = int(n)
        t1 = A.Identifier('int.tab1', alias=A.Identifier('t1'))
        if shape == 'consts':
            return A.Select(targets=[A.Star()], from_table=t1,
                            where=A.BinaryOperation('in', args=[A.Identifier('t1.a'), A.Tuple([A.Constant('k%s_%d' % (tag, i)) for i in range(n)])]))
        targets = [A.Identifier('t1.w%s_%d' % (tag, i)) for i in range(n)]
        if shape == 'plain':
            return A.Select(targets=targets, from_table=t1)
        return A.Select(targets=targets, from_table=A.Join(left=t1, right=A.Identifier('int2.tab2', alias=A.Identifier('t2')), join_type='join',
                                                           condition=A.BinaryOperation('=', args=[A.Identifier('t1.a'), A.Identifier('t2.a')])))
    raise ValueError(name)


def plan_kwargs(cat):
    kw = {}
    for k in ('integrations', 'predictor_namespace', 'predictor_metadata', 'default_namespace'):
        if k in cat and cat[k] is not None:
            kw[k] = cat[k]
    return kw


def scribble(x, keep, depth=0, seen=None):
    """A caller that EDITS what it got back (MindsDB rewrites returned trees and plan steps): every list reachable from a
    result gets an extra element and loses its first one, every dict an extra key.  Only lists / dicts / tuples, AST nodes and
    plan steps are followed; objects that belong to the caller's own catalogs (`keep`: their ids) are left alone.  On a library
    whose results are private to the call this changes nothing for anybody else."""
    if seen is None:
        seen = set()
    if id(x) in seen or id(x) in keep or depth > 60:
        return
    seen.add(id(x))
    if isinstance(x, list):
        for i in list(x):
            scribble(i, keep, depth + 1, seen)
        if x:
            x.pop(0)
        x.append('scribbled')
    elif isinstance(x, dict):
        for v in list(x.values()):
            scribble(v, keep, depth + 1, seen)
        x['scribbled'] = True
    elif isinstance(x, tuple):
        for i in x:
            scribble(i, keep, depth + 1, seen)
    else:
        mod = type(x).__module__ or ''
        if mod.startswith('mindsdb_sql.') and hasattr(x, '__dict__'):
            for v in list(vars(x).values()):
                scribble(v, keep, depth + 1, seen)


def _ids_of(x, out, depth=0):
    """ids of the containers reachable from an object the CALLER owns (a catalog, the tree it passed in): editing those is the
    caller's own business, so a result that merely aliases them is not scribbled on."""
    if id(x) in out or depth > 60:
        return
    if isinstance(x, (list, dict, tuple)):
        out.add(id(x))
        for v in (x.values() if isinstance(x, dict) else x):
            _ids_of(v, out, depth + 1)
    elif (type(x).__module__ or '').startswith('mindsdb_sql.') and hasattr(x, '__dict__'):
        out.add(id(x))
        for v in list(vars(x).values()):
            _ids_of(v, out, depth + 1)


def run_op(op, env):
    """Execute one op against the real library and return its observable.  BaseExceptions that are
    not Exception (SimAbort, KeyboardInterrupt, SystemExit) propagate to the client loop."""
    k = op['k']
    try:
        if k == 'parse':
            from mindsdb_sql import parse_sql
            tree = parse_sql(op['sql'], dialect=op['d'])
            obs = dump_ast(tree)
            if getattr(env, 'scribble', False):
                scribble(tree, set())
            return obs
        if k == 'plan':
            from mindsdb_sql import parse_sql
            from mindsdb_sql.planner import plan_query
            tpl = (getattr(env, '_trees', None) or {}).get(('tpl', op.get('d', 'mindsdb'), op.get('sql'))) if not op.get('ast') else None
            if tpl is not None:
                import copy as _copy
                ast = tpl.copy() if len(op['sql']) % 2 else _copy.deepcopy(tpl)
            else:
                ast = build_tree(op['ast']) if op.get('ast') else parse_sql(op['sql'], dialect=op.get('d', 'mindsdb'))
            cat_ = env.catalog(op.get('cat'))
            plan = plan_query(ast, **plan_kwargs(cat_))
            obs = 'ok: ' + dump_steps(plan.steps)
            if getattr(env, 'scribble', False):
                keep = set()
                _ids_of(cat_, keep)
                scribble(plan.steps, keep)
            return obs
        if k == 'render':
            from mindsdb_sql import parse_sql
            shared_tree = env.shared_tree(op)
            if shared_tree is not None:
                ast = shared_tree
            else:
                ast = build_tree(op['ast']) if op.get('ast') else parse_sql(op['sql'], dialect=op['d'])
            r = env.renderer(op['rd'])
            if op.get('wp'):
                sql, params = r.get_exec_params(ast, with_failback=op.get('fb', True), with_params=True)
                obs = norm_text('ok: %s\nparams: %s' % (sql, dump_value(params)))
                if getattr(env, 'scribble', False) and isinstance(params, (list, dict)):
                    keep = set()
                    _ids_of(ast, keep)       # (the pinned tree hands back the rows of the caller's own plain-insert tree)
                    scribble(params, keep)
                return obs
            return norm_text('ok: ' + r.get_string(ast, with_failback=op.get('fb', True)))
        if k == 'flow':
            return _flow(op, env)
    except (MemoryError, RecursionError) as e:
        if str(e) == 'injected':
            raise
        # a genuine one (deeply nested input) is an ordinary outcome; its message says where the limit happened to
        # be hit, which depends on the stack depth of the caller, so only the class is part of the observable
        return 'err: %s' % type(e).__name__
    except Exception as e:
        return exc_obs(e)
    raise ValueError('unknown op kind %r' % (k,))


def _flow(op, env):
    """The realistic server flow: parse -> plan (edits the tree it was given) -> render the queries
    of the fetch steps -> parse the same text again."""
    from mindsdb_sql import parse_sql
    from mindsdb_sql.planner import plan_query
    from mindsdb_sql.planner.steps import FetchDataframeStep
    out = []
    ast = parse_sql(op['sql'], dialect=op.get('d', 'mindsdb'))
    out.append(dump_ast(ast))
    plan = plan_query(ast, **plan_kwargs(env.catalog(op.get('cat'))))
    out.append(dump_steps(plan.steps))
    r = env.renderer(op.get('rd', 'mysql'))
    for st in plan.steps:
        if isinstance(st, FetchDataframeStep) and st.query is not None:
            try:
                out.append('R: ' + r.get_string(st.query, with_failback=True))
            except Exception as e:
                out.append('R: ' + exc_obs(e))
    ast2 = parse_sql(op['sql'], dialect=op.get('d', 'mindsdb'))
    out.append(dump_ast(ast2))
    return norm_text('ok: ' + '\n'.join(out))
