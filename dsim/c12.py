"""C12 — prepared statements bind placeholders in textual order (DESIGN §5.C12).

Parties: client sessions (each owns one QueryPlanner), the real planner, a stub executor with
fault modes.  One scheduler step = one session op (one API call or one advance of a step
generator); a seeded interleaver picks which session moves next.  In a fraction of runs the
sessions are additionally put on baton-scheduled client threads (line-level pre-emption).

Reference model: the generator writes every statement with a private marker (\\x01) where a real
placeholder goes, so the number and the textual order of placeholders is known without consulting
repo code; decoys ('?' inside string literals and comments) are ordinary text.
"""
import collections
import copy
import hashlib
import json
import os
import random
import re
import time

from . import ops as O
from . import report
from .pool import Pool, HarnessError

PROP = 'C12'
MARK = '\x01'

# ---------------------------------------------------------------------------------------------
# catalogs (fresh copies per use) and the stub executor
# ---------------------------------------------------------------------------------------------
_DI = [{'name': 'int', 'type': 'data', 'class_type': 'sql'}, {'name': 'int2', 'type': 'data', 'class_type': 'sql'}]
# a plain model and a time-series one (its joins are planned by a different code path, which builds the final projection itself)
_PM = [{'name': 'pred', 'integration_name': 'mindsdb'},
       {'name': 'tp', 'integration_name': 'mindsdb', 'timeseries': True, 'order_by_column': 'x', 'group_by_columns': ['k'], 'window': 5, 'horizon': 2}]
CATALOGS = {
    # the same catalogs with integrations given as dicts (kept by reference by the planner)
    'one_d': {'integrations': [_DI[0]], 'predictor_namespace': 'mindsdb', 'predictor_metadata': [], 'default_namespace': None},
    'two_d': {'integrations': _DI, 'predictor_namespace': 'mindsdb', 'predictor_metadata': [], 'default_namespace': None},
    'model_d': {'integrations': _DI, 'predictor_namespace': 'mindsdb', 'predictor_metadata': _PM, 'default_namespace': None},
    'one': {'integrations': ['int'], 'predictor_namespace': 'mindsdb', 'predictor_metadata': [], 'default_namespace': None},
    'two': {'integrations': ['int', 'int2'], 'predictor_namespace': 'mindsdb', 'predictor_metadata': [], 'default_namespace': None},
    'model': {'integrations': ['int', 'int2'], 'predictor_namespace': 'mindsdb', 'predictor_metadata': _PM, 'default_namespace': None},
}
COLS = [{'name': n, 'type': t} for n, t in
        [('a', 'int'), ('b', 'str'), ('c', 'int'), ('d', 'float'), ('id', 'int'), ('x', 'int'), ('y', 'str'), ('k', 'int'), ('p', 'float')]]


def executor_answer(step, mode):
    """Stub executor.  mode: ok | none | empty | noset"""
    from mindsdb_sql.planner import steps
    if mode == 'noset':
        return False
    if mode == 'none':
        step.set_result(None)
        return True
    if isinstance(step, (steps.GetTableColumns, steps.GetPredictorColumns)):
        if mode == 'empty':
            step.set_result({'values': [], 'columns': {}, 'tables': []})
            return True
        name = step.table if isinstance(step, steps.GetTableColumns) else step.predictor.parts[-1]
        alias = ('int', name, name)
        step.set_result({'values': [], 'columns': {alias: copy.deepcopy(COLS)}, 'tables': [alias]})
        return True
    step.set_result([{'a': 1}])
    return True


# ---------------------------------------------------------------------------------------------
# statement generator: chunks [(flag, text)], flag 'm' mandatory / 'o' optional (for minimisation)
# ---------------------------------------------------------------------------------------------
class Gen:
    def __init__(self, rng, pdens=0.45):
        self.rng = rng
        self.pdens = pdens

    def ph(self):
        return MARK

    def atom(self, cols):
        r = self.rng.random()
        if r < self.pdens:
            return MARK
        if r < self.pdens + 0.3 and cols:
            return self.rng.choice(cols)
        if r < self.pdens + 0.42:
            return self.rng.choice(["'?'", "'a?b'", "'x'", "'it''s ?'"])   # decoys: not placeholders
        return str(self.rng.randint(1, 9))

    def expr(self, cols, depth):
        rng = self.rng
        if depth <= 0 or rng.random() < 0.35:
            return self.atom(cols)
        k = rng.randrange(11)
        e = lambda: self.expr(cols, depth - 1)  # noqa
        if k == 0:
            return '%s %s %s' % (e(), rng.choice(['+', '-', '*']), e())
        if k == 1:
            return 'coalesce(%s, %s)' % (e(), e())
        if k == 2:
            return 'case when %s then %s else %s end' % (self.cond(cols, depth - 1), e(), e())
        if k == 3:
            return 'case %s when %s then %s when %s then %s end' % (e(), e(), e(), e(), e())
        if k == 4:
            return 'cast(%s as int)' % e()
        if k == 5:
            # unary minus on a column or on a parenthesised operand; never directly on a placeholder or a number:
            # the parser folds `-5` into one constant, so `-?` and `-5` are different trees of equal meaning
            return rng.choice(['-%s' % rng.choice(cols), '-(%s + %s)' % (rng.choice(cols), self.atom(cols))])
        if k == 6:
            if rng.random() < 0.5:
                return 'substring(%s from %s)' % (rng.choice(cols), self.atom(cols))
            return 'substring(%s from %s for %s)' % (rng.choice(cols), self.atom(cols), self.atom(cols))
        if k == 7:
            return 'substring(%s, %s)' % (rng.choice(cols), self.atom(cols))
        if k == 8:
            return rng.choice(['abs(%s)', 'count(distinct %s)', 'extract(year from %s)', 'max(%s)']) % e()
        if k == 9:
            return '(%s)' % e()
        return 'concat(%s, %s, %s)' % (e(), e(), e())

    def cond(self, cols, depth):
        rng = self.rng
        k = rng.randrange(9)
        if depth > 0 and rng.random() < 0.12:
            # a nested sub-select (mostly on another integration, so that the planner fetches it on its own)
            tbl = rng.choice(['int2.t4', 'int2.t4', 'int.t3', 'mindsdb.v1'])
            inner = '%s %s %s' % (rng.choice(['k', 'id']), rng.choice(['=', '>', '<']), self.atom(['k']))
            col = rng.choice(cols) if cols else 'a'
            return rng.choice(['%s in (select k from %s where %s)', '%s not in (select k from %s where %s)',
                               '%s = (select max(k) from %s where %s)']) % (col, tbl, inner)
        e = lambda: self.expr(cols, max(depth - 1, 0))  # noqa
        if depth > 0 and k == 0:
            return '%s and %s' % (self.cond(cols, depth - 1), self.cond(cols, depth - 1))
        if depth > 0 and k == 1:
            return '(%s or %s)' % (self.cond(cols, depth - 1), self.cond(cols, depth - 1))
        if k == 2:
            return '%s in (%s)' % (rng.choice(cols), ', '.join(self.atom(cols) for _ in range(rng.randint(1, 3))))
        if k == 3:
            return '%s between %s and %s' % (rng.choice(cols), self.atom(cols), self.atom(cols))
        if k == 4:
            return 'not %s = %s' % (rng.choice(cols), self.atom(cols))
        if k == 5:
            return rng.choice(['%s like %s' % (rng.choice(cols), self.atom(cols)), '%s is null' % self.atom(cols), '%s like %s' % (self.atom(cols), "'x%'"),
                               '(%s, %s) in ((%s, %s))' % (rng.choice(cols), rng.choice(cols), self.atom(cols), self.atom(cols)),
                               '(%s, %s) in ((1, 2))' % (self.atom(cols), self.atom(cols)), '%s in %s' % (rng.choice(cols), MARK),
                               '%s is %s' % (rng.choice(cols), rng.choice([MARK, 'null', 'not null']))])
        return '%s %s %s' % (e(), rng.choice(['=', '>', '<', '>=', '<>']), e())

    # ---- statement shapes: each returns (chunks, catalog)
    def select_one(self, depth, table='int.t1', cols=('a', 'b', 'c', 'd')):
        rng = self.rng
        cols = list(cols)
        ch = [('m', 'select ')]
        nt = rng.randint(1, 3)
        for i in range(nt):
            t = self.expr(cols, depth)
            if rng.random() < 0.3:
                t += ' as r%d' % i
            ch.append(('m' if i == 0 else 'o', t if i == 0 else ', ' + t))
        if rng.random() < 0.15:
            ch.append(('o', ', sum(a) over (partition by %s order by %s)' % (self.atom(cols), self.atom(cols))))
        ch.append(('m', ' from %s' % table))
        if rng.random() < 0.8:
            ch.append(('o', ' where ' + self.cond(cols, depth)))
        if rng.random() < 0.3:
            ch.append(('o', ' group by ' + ', '.join(self.atom(cols) for _ in range(rng.randint(1, 2)))))
            if rng.random() < 0.6:
                ch.append(('o', ' having count(*) > ' + self.atom(cols)))
        if rng.random() < 0.3:
            ch.append(('o', ' order by ' + self.atom(cols)))
        if rng.random() < 0.12:
            # LIMIT / OFFSET placeholders: the pinned grammars reject them (then the statement only counts as
            # parse_rejected); a grammar that accepts them must bind them in textual order like everything else
            ch.append(('o', rng.choice([' limit %s', ' limit %s offset %s', ' limit %s, %s', ' limit 5 offset %s'])
                       .replace('%s', MARK)))
        if rng.random() < 0.15:
            ch.append(('o', ' -- is it ? \n'))
        return ch

    def wide_statement(self):
        """Size instead of shape: 10-40 placeholders in one flat statement (a wide INSERT, a long AND chain, a long IN list, a wide
        select list, a wide UPDATE).  Whatever collects or binds placeholders by sorting, numbering or de-duplicating them
        behaves differently only beyond some count (two-digit positions, equal neighbouring expressions)."""
        rng = self.rng
        n = rng.choice([10, 11, 12, 16, 21, 33, 40])
        k = rng.randrange(6)
        if k == 0:
            rows = rng.choice([1, 1, 2])
            per = n // rows
            cols = ', '.join('c%d' % i for i in range(per))
            vals = ', '.join('(' + ', '.join(MARK if rng.random() < 0.9 else str(i) for i in range(per)) + ')' for _ in range(rows))
            return [('m', 'insert into int.t1 (%s) values %s' % (cols, vals))], 'one'
        if k == 1:
            ch = [('m', 'select * from int.t1 where c0 = ' + MARK)]
            ch += [('o', ' and c%d %s %s' % (i, rng.choice(['=', '=', '>', '<>']), MARK)) for i in range(1, n)]
            return ch, rng.choice(['one', 'two'])
        if k == 2:
            ch = [('m', 'select a from int.t1 where b in (' + MARK)] + [('o', ', ' + MARK) for _ in range(n - 1)] + [('m', ')')]
            if rng.random() < 0.4:
                ch.append(('o', ' and c = ' + MARK))
            return ch, 'one'
        if k == 3:
            ch = [('m', 'select ' + MARK)] + [('o', ', ' + (MARK if rng.random() < 0.85 else 'c')) for _ in range(n - 1)] + [('m', ' from int.t1')]
            return ch, 'one'
        if k == 4:
            ch = [('m', 'update int.t1 set c0 = ' + MARK)] + [('o', ', c%d = %s' % (i, MARK)) for i in range(1, n - 1)] + [('m', ' where id = ' + MARK)]
            return ch, 'one'
        # the same column compared again and again: equal neighbouring expressions
        ch = [('m', 'delete from int.t1 where a = ' + MARK)] + [('o', ' or a = ' + MARK) for _ in range(n - 1)]
        return ch, 'one'

    def statement(self):
        rng = self.rng
        depth = rng.choice([0, 1, 1, 2, 2, 3])
        k = rng.randrange(33)
        cols = ['a', 'b', 'c', 'd']
        if k >= 30:  # table joined with a model (32) or a time-series model (30, 31): free-form select list, no star
            tc = ['t.a', 'm.p', 't.c']
            ch = [('m', 'select ')]
            for i in range(rng.randint(1, 3)):
                t = self.expr(tc, min(depth, 2))
                if rng.random() < 0.3:
                    t += ' as r%d' % i
                ch.append(('m' if i == 0 else 'o', t if i == 0 else ', ' + t))
            if k == 32:
                ch.append(('m', ' from int.t1 as t join mindsdb.pred as m'))
                ch.append(('o', ' where t.x > ' + rng.choice([MARK, '1'])))
            else:
                ch.append(('m', ' from int.t1 as t join mindsdb.tp as m'))
                ch.append(('o', ' where t.x > ' + rng.choice(['latest', 'latest', MARK, '10'])))
            if ch[-1][1].startswith(' where'):
                if rng.random() < 0.6:
                    ch.append(('o', ' and t.k = ' + rng.choice([MARK, '1'])))
                if rng.random() < 0.3:
                    ch.append(('o', ' and t.c in (%s, %s)' % (self.atom(['t.a']), self.atom(['t.a']))))
            if rng.random() < 0.2:
                ch.append(('o', ' limit 5'))
            return ch, 'model'
        if k == 26:  # CREATE TABLE ... (SELECT ...)
            ch = [('m', 'create table int.t9 (select '), ('m', self.expr(cols, min(depth, 1))), ('o', ', ' + self.atom(cols)), ('m', ' from int2.t2 where '),
                  ('m', self.cond(cols, depth)), ('m', ')')]
            return ch, 'two'
        if k == 27:  # selects without FROM, UNION of them
            ch = [('m', 'select '), ('m', self.atom([])), ('o', ', ' + self.atom([])), ('o', ' union select %s, %s' % (self.atom([]), self.atom([])))]
            return ch, rng.choice(['one', 'two'])
        if k == 28:  # outer joins, placeholders in ON and in IS
            jt = rng.choice(['left join', 'right join', 'full join', 'inner join'])
            ch = [('m', 'select t1.a, t2.b from int.t1 as t1 %s int2.t2 as t2 on t1.id = ' % jt), ('m', rng.choice([MARK, 't2.id'])),
                  ('o', ' and t2.k > ' + self.atom(['t1.a'])), ('o', ' where ' + self.cond(['t1.a', 't2.b'], min(depth, 1))),
                  ('o', ' order by %s desc, t1.a' % self.atom(['t2.b']))]
            return ch, 'two'
        if k == 29:  # GROUP BY / HAVING / ORDER BY with several items
            ch = [('m', 'select a, max(d) from int.t1 where b = '), ('m', self.atom(cols)), ('m', ' group by %s, a' % self.atom(cols)),
                  ('o', ' having max(d) > %s and min(c) < %s' % (self.atom(cols), self.atom(cols))), ('o', ' order by %s, a desc' % self.atom(cols))]
            return ch, rng.choice(['one', 'two'])
        if k in (24, 25):  # a sub-select (named columns or star) joined with a model
            tl = rng.choice(['*', 'a, b', 'a, b as bb, c', 'a, x'])
            ch = [('m', 'select s.a, m.p from (select %s from int.t1 where ' % tl), ('m', self.cond(cols, min(depth, 1))),
                  ('m', ') as s join mindsdb.pred as m'), ('o', ' where s.a > ' + rng.choice([MARK, '1'])),
                  ]
            if ch[-1][1].startswith(' where') and rng.random() < 0.5:
                ch.append(('o', ' and m.k = ' + rng.choice([MARK, '3'])))
            return ch, 'model'
        if k == 16:  # three-way join, placeholders in ON conditions and in a joined sub-select
            third = rng.choice(['(select id, k from int.t3 where %s) as t3' % self.cond(['k', 'id'], min(depth, 1)), 'int.t3 as t3'])
            ch = [('m', 'select '), ('m', self.expr(['t1.a', 't2.b'], min(depth, 1))), ('m', ' from int.t1 as t1 join int2.t2 as t2 on t1.id = t2.id'),
                  ('o', ' and t2.x > ' + self.atom(['t1.a'])), ('m', ' join %s on t3.id = t2.id' % third), ('o', ' and t3.k < ' + self.atom(['t1.c'])),
                  ('o', ' where ' + self.cond(['t1.a', 't2.b'], min(depth, 1)))]
            return ch, 'two'
        if k == 17:  # EXISTS / IN sub-selects in WHERE
            ch = [('m', 'select * from int.t1 where '), ('o', 'a = %s and ' % self.atom(cols)),
                  ('m', rng.choice(['exists (select 1 from int2.t2 where %s)', 'b in (select b from int2.t2 where %s)', 'not exists (select 1 from int2.t2 where %s)'])
                   % self.cond(cols, min(depth, 1))), ('o', ' and d < ' + self.atom(cols))]
            return ch, 'two'
        if k == 18:  # two levels of nesting in FROM
            ch = [('m', 'select '), ('m', self.expr(['x', 'y'], min(depth, 1))), ('m', ' from (select * from (select * from int.t1 where '),
                  ('m', self.cond(cols, min(depth, 1))), ('m', ') as s1 where '), ('m', self.cond(cols, 0)), ('m', ') as s2'),
                  ('o', ' where ' + self.cond(['x', 'y'], 0))]
            return ch, rng.choice(['one', 'two'])
        if k == 19:  # two CTEs joined
            ch = [('m', 'with c1 as (select * from int.t1 where '), ('m', self.cond(cols, min(depth, 1))), ('m', '), c2 as (select * from int2.t2 where '),
                  ('m', self.cond(cols, min(depth, 1))), ('m', ') select '), ('m', self.expr(['c1.a', 'c2.b'], 0)),
                  ('m', ' from c1 join c2 on c1.id = c2.id'), ('o', ' where c1.a > ' + self.atom(['c2.b']))]
            return ch, 'two'
        if k == 20:  # union of three
            ch = [('m', 'select a from int.t1 where '), ('m', self.cond(cols, 0)), ('m', ' union all select a from int2.t2 where '),
                  ('m', self.cond(cols, 0)), ('o', ' union select a from int.t3 where ' + self.cond(cols, 0))]
            return ch, 'two'
        if k == 21:  # scalar sub-select in the select list
            ch = [('m', 'select a, (select max(b) from int2.t2 where '), ('m', self.cond(cols, 0)), ('m', ') as m'), ('o', ', ' + self.atom(cols)),
                  ('m', ' from int.t1'), ('o', ' where ' + self.cond(cols, min(depth, 1)))]
            return ch, 'two'
        if k == 22:  # insert ... select with a join
            ch = [('m', 'insert into int.t1 (a, b) select t2.a, '), ('m', self.atom(['t3.b'])), ('m', ' from int2.t2 as t2 join int.t3 as t3 on t2.id = t3.id'),
                  ('o', ' and t3.k = ' + self.atom(['t2.c'])), ('m', ' where '), ('m', self.cond(['t2.a', 't3.b'], min(depth, 1)))]
            return ch, 'two'
        if k == 23:  # table joined with a model, placeholders on both sides of the split
            ch = [('m', 'select t.a, m.p from int.t1 as t join mindsdb.pred as m where t.x > '), ('m', rng.choice([MARK, '1'])),
                  ('o', ' and t.b in (%s, %s)' % (self.atom(['t.a']), self.atom(['t.a']))), ('o', ' and m.k = ' + rng.choice([MARK, '3'])),
                  ('o', ' and t.c between %s and %s' % (self.atom(['t.a']), self.atom(['t.a'])))]
            return ch, 'model'
        if k <= 2:
            return self.select_one(depth), rng.choice(['one', 'two', 'model'])
        if k == 3:   # join of two integrations
            ch = [('m', 'select '), ('m', self.expr(['t1.a', 't2.b'], depth)), ('o', ', ' + self.expr(['t1.c', 't2.d'], depth)),
                  ('m', ' from int.t1 as t1 join int2.t2 as t2 on t1.id = t2.id'), ('o', ' and t2.x > ' + self.atom(['t1.a'])),
                  ('o', ' where ' + self.cond(['t1.a', 't2.b'], depth))]
            return ch, 'two'
        if k == 4:   # join of two sub-selects
            ch = [('m', 'select * from (select * from int.t1 where '), ('m', self.cond(cols, depth)), ('m', ') as s1 join (select * from int2.t2 where '),
                  ('m', self.cond(cols, depth)), ('m', ') as s2 on s1.id = s2.id'), ('o', ' where s1.a > ' + self.atom(['s1.a']))]
            return ch, 'two'
        if k == 5:   # nested select in FROM
            ch = [('m', 'select '), ('m', self.expr(['x', 'y'], depth)), ('o', ', x'), ('m', ' from (select * from int.t1 where '),
                  ('m', self.cond(cols, depth)), ('m', ') as s'), ('o', ' where ' + self.cond(['x', 'y'], depth))]
            return ch, rng.choice(['one', 'two'])
        if k == 6:   # CTE
            ch = [('m', 'with c1 as (select * from int.t1 where '), ('m', self.cond(cols, depth)), ('m', ') select '),
                  ('m', self.expr(cols, depth)), ('m', ' from c1'), ('o', ' where ' + self.cond(cols, depth))]
            return ch, 'two'
        if k == 7:   # union
            ch = [('m', 'select a from int.t1 where '), ('m', self.cond(cols, depth)), ('m', ' union select a from int2.t2 where '),
                  ('m', self.cond(cols, depth))]
            return ch, 'two'
        if k == 8:   # sub-select in WHERE, other integration
            ch = [('m', 'select * from int.t1 where '), ('o', 'd = %s and ' % self.atom(cols)), ('m', 'a in (select b from int2.t2 where '),
                  ('m', self.cond(cols, depth)), ('m', ')'), ('o', ' and c = ' + self.atom(cols))]
            return ch, 'two'
        if k == 9:   # select from model
            ch = [('m', 'select * from mindsdb.pred where x = '), ('m', MARK if rng.random() < 0.8 else '1'),
                  ('o', ' and y = ' + rng.choice([MARK, "'?'", '2']))]
            return ch, 'model'
        if k == 10:  # table join model
            ch = [('m', 'select t.a, m.p from int.t1 as t join mindsdb.pred as m'), ('o', ' where t.x > ' + rng.choice([MARK, '1'])),
                  ]
            if ch[-1][1].startswith(' where') and rng.random() < 0.6:
                ch.append(('o', ' and m.k = ' + rng.choice([MARK, '3'])))
                ch.append(('o', ' and t.c in (%s, %s)' % (self.atom(['t.a']), self.atom(['t.a']))))
            return ch, 'model'
        if k == 11:  # insert values
            rows = []
            for _ in range(rng.randint(1, 3)):
                rows.append('(%s, %s, %s)' % (self.atom([]), self.atom([]), self.atom([])))
            ch = [('m', 'insert into int.t1 (a, b, c) values '), ('m', rows[0])] + [('o', ', ' + r) for r in rows[1:]]
            return ch, rng.choice(['one', 'two'])
        if k == 12:  # insert select
            ch = [('m', 'insert into int.t1 (a, b) select a, b from int2.t2 where '), ('m', self.cond(cols, depth))]
            return ch, 'two'
        if k == 13:  # update
            ch = [('m', 'update int.t1 set a = '), ('m', self.expr(cols, min(depth, 1))), ('o', ', b = ' + self.expr(cols, min(depth, 1))),
                  ('o', ', c = ' + self.atom(cols)), ('m', ' where '), ('m', self.cond(cols, depth))]
            return ch, rng.choice(['one', 'two'])
        if k == 14:  # update from select
            ch = [('m', 'update int.t1 set a = df.a'), ('o', ', b = ' + self.atom(['df.b'])), ('m', ' from (select * from int2.t2 where '),
                  ('m', self.cond(cols, depth)), ('m', ') as df where t1.id = df.id'), ('o', ' and t1.c = ' + self.atom(['df.c']))]
            return ch, 'two'
        ch = [('m', 'delete from int.t1 where '), ('m', self.cond(cols, depth))]
        return ch, rng.choice(['one', 'two'])


def text_of(chunks):
    return ''.join(t for _, t in chunks)


_GAPS = ['\n', '\t', '  ', ' /* c */ ', ' --\n', ' -- c ?\n', ' /* ? */ ', '\n--\n', ' -- it\'s\n', '\n\n', ' /**/ ', '\r\n']


def laid_out(marked, layout):
    """The same token sequence written differently: single spaces OUTSIDE string literals are replaced, here and there, by
    other things that are white space to SQL -- line breaks, tabs, block comments, line comments (empty, with text, with a
    `?` or a quote in them).  A pure function of (text, layout number); layout 0 is the text as generated.  The model's
    placeholder count stays the generator's own (markers in the text); comments only ever contain decoys."""
    if not layout:
        return marked
    rng = random.Random('C12/layout/%d' % layout)
    dens = (0.08, 0.2, 0.45)[layout % 3]
    out = []
    in_str = in_line = in_block = False
    for i, ch in enumerate(marked):
        if in_line:
            if ch == '\n':
                in_line = False
        elif in_block:
            if ch == '/' and i and marked[i - 1] == '*':
                in_block = False
        elif ch == "'":
            in_str = not in_str          # ('' inside a literal toggles twice: no net change)
        elif not in_str and ch == '-' and marked[i + 1:i + 2] == '-':
            in_line = True               # a comment the generator wrote itself: left alone up to its line break
        elif not in_str and ch == '/' and marked[i + 1:i + 2] == '*':
            in_block = True
        if ch == ' ' and not (in_str or in_line or in_block) and rng.random() < dens:
            g = _GAPS[rng.randrange(len(_GAPS))]
            if ('-' in g or '*' in g) and marked[i - 1:i].isalpha() and marked[i + 1:i + 2].isalpha():
                # between two words only plain white space: the grammars lex GROUP BY, IS NOT, LEFT JOIN ... as ONE token
                # with white space inside, and reject a comment there (not this property's business)
                g = ('\n', '\t', '  ', '\r\n')[rng.randrange(4)]
            out.append(g)
        else:
            out.append(ch)
    return ''.join(out)


def stmt_text(st):
    """Marked text of a statement dict in its layout."""
    return laid_out(text_of(st['chunks']), st.get('layout', 0))


COLLIDING = [(1, '1'), (1.0, '1.0'), (True, 'true'), (0, '0'), (0.0, '0.0'), (False, 'false'), (2, '2'), (2.0, '2.0'), ('1', "'1'"), (None, 'null')]


def value_for(k, rng_tag, dialect='mindsdb'):
    v = _value_for(k, rng_tag)
    if dialect != 'mindsdb' and isinstance(v[0], (int, float)) and not isinstance(v[0], bool) and v[0] < 0:
        # only the mindsdb grammar folds `-5` into one constant; elsewhere the inline text is a unary minus applied to 5,
        # a different tree of equal meaning (see DESIGN §11.3): no negative values outside the mindsdb dialect
        return 3000 + k, str(3000 + k)
    return v


def _value_for(k, rng_tag):
    if rng_tag >= 100:
        # palette of values that compare equal across types (1 == 1.0 == True ...): what a cache keyed by value confuses
        return COLLIDING[(k * 3 + rng_tag) % len(COLLIDING)]
    return _unique_value_for(k, rng_tag)


def _unique_value_for(k, rng_tag):
    """Unique, attributable value for placeholder k: (python value, SQL literal spelling).  The kinds a
    client library really sends: integers (also negative), strings (also one that contains a `?`, which
    must not be taken for a placeholder again), floats, booleans, NULL."""
    m = (k * 7 + rng_tag) % 8
    if m == 5 and rng_tag >= 50:
        # (mindsdb dialect only) a string with a quote in it, the empty string, an integer beyond 64 bits
        j = (k + rng_tag) % 4
        if j == 3:
            return 'C:\\tmp\\f%d 50\\%%' % k, "'C:\\tmp\\f%d 50\\%%'" % k
        if j == 0:
            return "it's %d" % k, "'it''s %d'" % k
        if j == 1:
            return '', "''"
        return 12345678901234567890 + k, str(12345678901234567890 + k)
    if m in (0, 5):
        return 1000 + k, str(1000 + k)
    if m == 1:
        return 'v%d' % k, "'v%d'" % k
    if m == 2:
        return k + 0.5, repr(k + 0.5)
    if m == 3:
        return -(2000 + k), str(-(2000 + k))
    if m == 4:
        return 'is it %d ?' % k, "'is it %d ?'" % k
    if m == 6:
        return (k % 2 == 0), ('true' if k % 2 == 0 else 'false')
    return None, 'null'


def subst(marked, literals):
    parts = marked.split(MARK)
    out = [parts[0]]
    for i, p in enumerate(parts[1:]):
        out.append(literals[i])
        out.append(p)
    return ''.join(out)


# ---------------------------------------------------------------------------------------------
# scenario generation
# ---------------------------------------------------------------------------------------------
def gen_script(rng, nstmts):
    """Session script: list of [op, arg...]."""
    s = []
    for si in range(nstmts):
        s.append(['P', si])
        r = rng.random()
        if r < 0.6:
            s.append(['A*', rng.choice(['ok'] * 6 + ['none', 'empty', 'noset'])])       # drive prepare to the end
        elif r < 0.8:
            for _ in range(rng.randint(1, 2)):
                s.append(['A', rng.choice(['ok', 'ok', 'none', 'empty', 'noset'])])
            if rng.random() < 0.5:
                s.append(['B', rng.choice(['close', 'drop'])])
        # else: prepare generator never advanced
        if rng.random() < 0.8:
            s.append(['I'])
        if rng.random() < 0.35:
            s.append(['W', rng.choice([-1, 1, 2])])
            if rng.random() < 0.3:
                s.append(['I'])
        s.append(['X'])
        if rng.random() < 0.25:
            s.append(['M'])       # the caller reuses (clears / overwrites) the list object it passed to execute_steps
        r = rng.random()
        if r < 0.8:
            s.append(['E*'])
        elif r < 0.92:
            s.append(['E'])
            s.append(['B', rng.choice(['close', 'drop'])])
        # else: the execute generator is never iterated
        if rng.random() < 0.15:
            s.append(['I2'])      # info after execution: not judged, recorded
        if rng.random() < 0.2:
            s.append(['X2'])      # second execute (other values) on an executed / abandoned execution: judged only if accepted
        if rng.random() < 0.2:
            # the same statement once more on this planner, from a copy of the cached parsed template (a server-side
            # statement cache): what the first session did to *its* copy must not show here
            s += [['Pc', si], ['A*', 'ok'], ['I'], ['X'], ['E*']]
    if nstmts >= 2 and rng.random() < 0.18:
        # late consumption: the generator returned by execute_steps(values) of one statement is only iterated after the same
        # planner has prepared (and perhaps executed) the next statement.  The values were bound when execute_steps was
        # called, so what it yields must still be the plan of *that* statement with *those* values.
        a, b = nstmts - 2, nstmts - 1
        s = [op for op in s if not (op[0] in ('P', 'Pc') and op[1] == b)]
        cut = max(i for i, op in enumerate(s) if op[0] in ('P', 'Pc') and op[1] == a)
        s = s[:cut] + [['P', a], ['A*', 'ok'], ['I'], ['X'], ['H'], ['P', b]]
        if rng.random() < 0.6:
            s.append(['A*', 'ok'])
        r = rng.random()
        if r < 0.3:
            s += [['X'], ['H2'], ['EH*']]
        elif r < 0.75:
            # ... and the newer statement is executed after the old generator was consumed: iterating a plan must not
            # disturb what the planner holds for the statement prepared since
            s += [['EH*'], ['I'], ['X'], ['E*']]
        else:
            s.append(['EH*'])
    return s


def _weighted_d(rng):
    r = rng.random()
    return 'mindsdb' if r < 0.7 else ('mysql' if r < 0.85 else 'sqlite')


def gen_scenario(seed):
    rng = random.Random('C12/%d' % seed)
    nsess = rng.choice([1, 2, 2, 3, 3, 4])
    g = Gen(rng, pdens=rng.choice([0.3, 0.45, 0.6]))
    sessions = []
    dict_ints = rng.random() < 0.3        # integrations handed over as dicts instead of names (whole run)
    for i in range(nsess):
        nst = rng.choice([1, 1, 2])
        stmts = []
        for _ in range(nst):
            for _try in range(20):
                ch, cat = g.statement()
                if text_of(ch).count(MARK) <= 6:
                    break
            if rng.random() < 0.07:
                ch, cat = g.wide_statement()
            if i > 0 and rng.random() < 0.3 and sessions[0]['stmts'][0]['chunks'][0][1].startswith('select'):
                # a sibling of session 0's first statement: same select list and FROM, another WHERE
                base_ch = sessions[0]['stmts'][0]['chunks']
                ch = [c_ for c_ in base_ch if not c_[1].startswith(' where')] + [('o', ' where ' + g.cond(['a', 'b', 'c'], 1))]
                ch = [tuple(c_) for c_ in ch]
                cat = sessions[0]['stmts'][0]['cat'].replace('_d', '')
                if text_of(ch).count(MARK) > 6:
                    ch = [tuple(c_) for c_ in base_ch]
            d = _weighted_d(rng)
            r = rng.random()
            tag = rng.randrange(8) if r < 0.6 else (100 + rng.randrange(10) if r < 0.8 else (50 + rng.randrange(8) if d == 'mindsdb' else rng.randrange(8)))
            st_ = {'chunks': ch, 'cat': cat, 'tag': tag, 'd': d}
            if rng.random() < 0.25:
                st_['layout'] = rng.randrange(1, 1 << 20)
            stmts.append(st_)
        # one planner (one catalog) per session: use the largest catalog any of its statements needs
        rank = {'one': 0, 'two': 1, 'model': 2}
        top = max((st['cat'] for st in stmts), key=lambda c: rank[c])
        if dict_ints:
            top += '_d'
        for st in stmts:
            st['cat'] = top
        sessions.append({'stmts': stmts, 'script': gen_script(rng, nst), 'cache_templates': rng.random() < 0.3, 'logs': rng.random() < 0.35, 'graft': rng.random() < 0.2})
    threads = rng.random() < 0.2
    if nsess >= 2 and rng.random() < (0.4 if threads else 0.08):
        # twin sessions: several clients prepare the SAME statement at the same time (a server gets one prepared statement from
        # many connections), some with the same values, some with values of other types, each on its own planner, and execute it
        # repeatedly.  Anything keyed by the statement's text or shape or by the types of the values is shared between them.
        base_ = sessions[0]
        for i in range(1, nsess):
            tw = copy.deepcopy(base_)
            if rng.random() < 0.5:
                for st in tw['stmts']:
                    st['tag'] = rng.choice([rng.randrange(8), 100 + rng.randrange(10), 50 + rng.randrange(8) if st['d'] == 'mindsdb' else rng.randrange(8)])
            sessions[i] = tw
        for sd in sessions:
            sc = []
            for si in range(len(sd['stmts'])):
                sc += [['P', si], ['A*', 'ok'], ['I'], ['X'], ['E*']]
                for _ in range(rng.randint(1, 2)):
                    sc += [['Pc', si], ['A*', 'ok'], ['I'], ['X'], ['E*']]
            sd['script'] = sc
    spec = {'cmd': 'c12', 'property': PROP, 'seed': seed, 'hashseed': seed % 16, 'sessions': sessions, 'threads': threads,
            'order_seed': rng.randrange(1 << 30), 'share_catalog': rng.random() < 0.5, 'share_values': rng.random() < 0.4}
    if threads:
        if rng.random() < 0.5:
            spec['strategy'] = {'kind': 'bernoulli', 'p': rng.choice([0.002, 0.01, 0.03])}
        else:
            # dense pre-emption in the code that collects and binds placeholders and keeps the session state
            spec['strategy'] = {'kind': 'focus', 'p': rng.choice([0.1, 0.3, 0.6]),
                                'files': ['mindsdb_sql/planner/utils.py', 'mindsdb_sql/planner/query_prepare.py']}
            if rng.random() < 0.6:
                # ... but not in the generic tree walker, which owns most of the lines executed there: the hand-overs then
                # concentrate in the code that collects, counts and binds (a client runs freely until it gets there too), so
                # that two sessions go through it in lockstep
                spec['strategy']['skip_names'] = ['query_traversal']
                spec['strategy']['p'] = rng.choice([0.3, 0.5, 0.8])
        spec['sched_seed'] = rng.randrange(1 << 30)
    return spec


# ---------------------------------------------------------------------------------------------
# the session (real planner) and its model
# ---------------------------------------------------------------------------------------------
def _has_q_param(v, depth=0):
    """Is there a Parameter('?') anywhere inside a step/AST/container?"""
    from mindsdb_sql.parser.ast.base import ASTNode
    from mindsdb_sql.parser.ast import Parameter
    from mindsdb_sql.planner.steps import PlanStep
    if depth > 40:
        return False
    if isinstance(v, Parameter):
        return v.value == '?'
    if isinstance(v, (ASTNode, PlanStep)):
        return any(_has_q_param(x, depth + 1) for k, x in vars(v).items() if k != 'result_data')
    if isinstance(v, dict):
        return any(_has_q_param(x, depth + 1) for x in v.values()) or any(_has_q_param(x, depth + 1) for x in v.keys())
    if isinstance(v, (list, tuple, set)):
        return any(_has_q_param(x, depth + 1) for x in v)
    return False


class Session:
    def __init__(self, sid, sdef, catalogs):
        self.sid = sid
        self.sdef = sdef
        self.catalogs = catalogs       # name -> catalog object to use (shared or private)
        self.planner = None
        self.gen = None
        self.cur = None                # current statement dict
        self.state = 'new'             # new | prepared | executed | failed
        self.steps = []
        self.exec_err = None
        self.log = []
        self.viol = []
        self.pc = 0
        self.obs = collections.Counter()
        self.pending_all = None
        self.templates = {}
        self.shared_vals = None
        self.held = None

    # -- model side
    def n(self):
        return stmt_text(self.cur).count(MARK)

    def values(self):
        return [value_for(k, self.cur['tag'], self.cur.get('d', 'mindsdb')) for k in range(self.n())]

    def v(self, kind, detail):
        self.viol.append({'kind': kind, 'session': self.sid, 'stmt': self.cur, 'detail': detail, 'pc': self.pc})

    # -- one atomic session op; returns False when the script is finished
    def step(self):
        if self.pending_all is not None:
            return self._continue_all()
        if self.pc >= len(self.sdef['script']):
            return False
        op = self.sdef['script'][self.pc]
        self.pc += 1
        k = op[0]
        from mindsdb_sql.exceptions import PlanningException
        if k in ('P', 'Pc'):
            from mindsdb_sql import parse_sql
            from mindsdb_sql.planner.query_planner import QueryPlanner
            self.cur = self.sdef['stmts'][op[1]]
            sql = stmt_text(self.cur).replace(MARK, '?')
            self.steps, self.exec_err, self.gen = [], None, None
            try:
                if self.sdef.get('cache_templates') or k == 'Pc':
                    # statement cache: parse once per text, hand out copies
                    dkey = (self.cur.get('d', 'mindsdb'), sql)       # a statement cache is per (dialect, text)
                    tpl = self.templates.get(dkey)
                    if tpl is None:
                        tpl = self.templates[dkey] = parse_sql(sql, dialect=self.cur.get('d', 'mindsdb'))
                    ast = tpl.copy()
                else:
                    ast = parse_sql(sql, dialect=self.cur.get('d', 'mindsdb'))
            except Exception as e:
                self.state = 'failed'
                self.obs['parse_rejected'] += 1
                self.log.append('P parse-err %s' % type(e).__name__)
                return True
            if self.sdef.get('graft'):
                # a caller that assembles its statement from parts parsed at different times (views, query rewriting): the
                # textually EARLIER part of the tree comes from a second, later parse of the same text
                try:
                    later = parse_sql(sql, dialect=self.cur.get('d', 'mindsdb'))
                    from mindsdb_sql.parser import ast as A
                    if isinstance(ast, A.Select) and isinstance(later, A.Select):
                        ast.targets = later.targets
                        if ast.cte is not None:
                            ast.cte = later.cte
                        self.obs['grafted'] += 1
                    elif isinstance(ast, A.Union) and isinstance(later, A.Union):
                        ast.left = later.left
                        self.obs['grafted'] += 1
                    elif isinstance(ast, A.Update) and isinstance(later, A.Update):
                        ast.update_columns = later.update_columns
                        self.obs['grafted'] += 1
                    elif isinstance(ast, A.Insert) and isinstance(later, A.Insert) and ast.values and len(ast.values) > 1:
                        ast.values = [later.values[0]] + ast.values[1:]
                        self.obs['grafted'] += 1
                except Exception:
                    pass
            if self.sdef.get('logs'):
                # a caller that logs what it is about to prepare: printing a tree must not change anything
                self.obs['tree_logged'] += 1
                str(ast), ast.to_tree(), repr(ast)
            if self.planner is None or (op[1] == 0 and k == 'P'):
                self.planner = QueryPlanner(**O.plan_kwargs(self.catalogs(self.cur['cat'])))
            try:
                self.gen = iter(self.planner.prepare_steps(ast))
                self.state = 'prepared'
                self.log.append('P ok')
            except Exception as e:
                self.state = 'failed'
                self.obs['prepare_raised:' + type(e).__name__] += 1
                self.log.append('P err ' + O.exc_obs(e))
            return True
        if (self.state == 'failed' or self.cur is None) and k != 'EH*':
            self.log.append(k + ' skipped')
            return True
        if k in ('A', 'A*'):
            if self.gen is None:
                return True
            if k == 'A*':
                self.pending_all = ('A', op[1])
                return self._continue_all()
            self._advance_prepare(op[1])
            return True
        if k == 'B':
            g = self.gen
            self.gen = None
            if g is not None and op[1] == 'close' and hasattr(g, 'close'):
                try:
                    g.close()
                except Exception as e:
                    self.obs['close_raised:' + type(e).__name__] += 1
            self.log.append('B ' + op[1])
            return True
        if k in ('I', 'I2'):
            try:
                info = self.planner.get_statement_info()
                got = len(info['parameters'])
                self.log.append('%s n=%d' % (k, got))
                if k == 'I' and self.state == 'prepared' and got != self.n():
                    self.v('param_count', 'reported %d parameters, statement has %d placeholders' % (got, self.n()))
            except Exception as e:
                self.log.append('%s err %s' % (k, O.exc_obs(e)))
                if k == 'I' and self.state == 'prepared':
                    self.v('param_count', 'get_statement_info raised ' + O.exc_obs(e))
                else:
                    self.obs['info_after_exec_raised:' + type(e).__name__] += 1
            return True
        if k == 'W':
            if self.state != 'prepared':
                return True
            n = self.n()
            m = max(0, n + op[1])
            if m == n:
                m = n + 1
            vals = [1] * m
            if n >= 2 and (self.pc + n) % 3 == 0:
                # ONE value that is itself a sequence of n values (what an executemany-style client would send): still one value
                vals = [tuple(range(n))] if self.pc % 2 else [list(range(n))]
                m = 1
            try:
                g = self.planner.execute_steps(vals)
                # the call (or the first advance) must raise PlanningException
                try:
                    for _ in g:
                        break
                except PlanningException:
                    raise
                self.v('arity_not_rejected', 'execute with %d values for %d placeholders did not raise' % (m, n))
                self.state = 'executed'
            except PlanningException:
                self.log.append('W rejected')
            except Exception as e:
                self.v('arity_wrong_exception', 'execute with %d values for %d placeholders raised %s' % (m, n, O.exc_obs(e)))
                self.state = 'failed'
            return True
        if k in ('X', 'X2'):
            if k == 'X2':
                # a second execute on the same prepared statement, with OTHER values.  The property does not say whether
                # it must be accepted; refusing it (any exception) is not judged.  But if it is accepted and yields a plan,
                # that plan must be the plan of the statement with *these* values written inline (not stale ones).
                if self.state not in ('executing', 'executed'):
                    return True
                tag2 = (self.cur['tag'] + 3) % 8
                vals2 = [value_for(kk, tag2, self.cur.get('d', 'mindsdb')) for kk in range(self.n())]
                try:
                    steps2 = []
                    for st in self.planner.execute_steps([v for v, _ in vals2]):
                        executor_answer(st, 'ok')
                        steps2.append(st)
                    self.obs['second_execute:accepted'] += 1
                except Exception as e:
                    self.obs['second_execute:' + type(e).__name__] += 1
                    self.state = 'failed'
                    return True
                self.steps, self.exec_err, self.gen = steps2, None, None
                self.state = 'executed'
                self._judge_execution(complete=True, vals=vals2, what='second execute')
                self.state = 'failed'
                return True
            if self.state != 'prepared':
                return True
            self.steps, self.exec_err = [], None
            if self.sdef.get('logs') and self.planner is not None and self.planner.query is not None:
                str(self.planner.query), self.planner.query.to_tree()
            self.vals_obj = [v for v, _ in self.values()]
            nxt = self.sdef['script'][self.pc] if self.pc < len(self.sdef['script']) else None
            if self.shared_vals is not None and not (nxt and nxt[0] == 'M'):
                # a caller that keeps ONE list object per distinct value list and hands it to every execute that needs these
                # values (other statements, other sessions): what one execute does to its argument must not show in the next
                key = repr(self.vals_obj)
                self.vals_obj = self.shared_vals.setdefault(key, self.vals_obj)
                want = [v for v, _ in self.values()]
                if self.vals_obj != want or [type(x) for x in self.vals_obj] != [type(x) for x in want]:
                    self.v('binding', 'the value list handed to an earlier execute_steps() was changed by it: %r instead of %r' % (self.vals_obj, want))
                    self.vals_obj = want
            try:
                self.gen = iter(self.planner.execute_steps(self.vals_obj))
                self.log.append('X ok')
            except Exception as e:
                self.gen = None
                self.exec_err = O.exc_obs(e)
                self.log.append('X err ' + self.exec_err)
            self.state = 'executing'
            if self.exec_err is not None:
                self._judge_execution(complete=True)
            return True
        if k == 'M':
            vo = getattr(self, 'vals_obj', None)
            if vo is not None:
                n = len(vo)
                vo[:] = ['reused-%d' % i for i in range(n)]
                if n and self.pc % 2:
                    vo.pop()
            self.log.append('M')
            return True
        if k == 'H':
            # keep the not yet iterated execute generator of this statement for later
            if self.state == 'executing' and self.gen is not None and not self.steps:
                self.held = (self.gen, self.cur, self.values())
                self.gen = None
                self.state = 'held'
                self.obs['execution_held'] += 1
            self.log.append('H')
            return True
        if k == 'H2':
            # the next statement's execute generator is dropped un-iterated (its values are bound, nothing is planned)
            if self.held is not None and self.state == 'executing':
                self.gen = None
                self.state = 'failed'
            self.log.append('H2')
            return True
        if k == 'EH*':
            if self.held is None:
                return True
            g, stmt, vals = self.held
            self.held = None
            cur, self.cur = self.cur, stmt
            self.steps, self.exec_err = [], None
            try:
                for st in g:
                    executor_answer(st, 'ok')
                    self.steps.append(st)
            except Exception as e:
                self.exec_err = O.exc_obs(e)
            self.obs['execution_consumed_late'] += 1
            self._judge_execution(complete=True, vals=vals, what='execute (generator iterated after the planner prepared the next statement)')
            self.cur = cur
            self.steps, self.exec_err = [], None
            # (the newer statement, if prepared and not yet executed, stays prepared: its parameter report and execution are
            # judged as usual; a newer statement whose execution was dropped un-iterated (H2) is finished)
            self.log.append('EH*')
            return True
        if k in ('E', 'E*'):
            if self.state != 'executing' or self.gen is None:
                return True
            if k == 'E*':
                self.pending_all = ('E', 'ok')
                return self._continue_all()
            self._advance_execute()
            return True
        raise ValueError(op)

    def _continue_all(self):
        kind, mode = self.pending_all
        more = self._advance_prepare(mode) if kind == 'A' else self._advance_execute()
        if not more:
            self.pending_all = None
        return True

    def _advance_prepare(self, mode):
        from mindsdb_sql.exceptions import PlanningException
        if self.gen is None:
            return False
        try:
            st = next(self.gen)
        except StopIteration:
            self.gen = None
            self.log.append('A done')
            return False
        except PlanningException as e:
            self.gen = None
            self.obs['prepare_planning_exception'] += 1
            self.log.append('A err ' + O.exc_obs(e))
            return False
        except Exception as e:
            # the property is silent about what column discovery does with a misbehaving executor
            self.gen = None
            self.obs['prepare_other_exception:' + type(e).__name__] += 1
            self.log.append('A err ' + O.exc_obs(e))
            return False
        executor_answer(st, mode)
        self.log.append('A step %s (%s)' % (type(st).__name__, mode))
        return True

    def _advance_execute(self):
        if self.gen is None:
            return False
        try:
            st = next(self.gen)
        except StopIteration:
            self.gen = None
            self.state = 'executed'
            self._judge_execution(complete=True)
            return False
        except Exception as e:
            self.gen = None
            self.exec_err = O.exc_obs(e)
            self.state = 'executed'
            self._judge_execution(complete=True)
            return False
        executor_answer(st, 'ok')
        self.steps.append(st)
        return True

    def finish(self):
        """Script over: judge a partially consumed execution on its prefix."""
        if self.state == 'executing' and self.steps:
            self._judge_execution(complete=False)

    def _judge_execution(self, complete, vals=None, what='execute'):
        """Executed steps must equal those of planning the statement with the values written inline."""
        from mindsdb_sql import parse_sql
        from mindsdb_sql.planner import plan_query
        vals = vals or self.values()
        inline = subst(stmt_text(self.cur), [lit for _, lit in vals])
        try:
            ref_plan = plan_query(parse_sql(inline, dialect=self.cur.get('d', 'mindsdb')), **O.plan_kwargs(copy.deepcopy(CATALOGS[self.cur['cat']])))
            ref_steps, ref_err = ref_plan.steps, None
        except Exception as e:
            ref_steps, ref_err = [], O.exc_obs(e)
        got_err = self.exec_err
        if ref_err is not None or got_err is not None:
            if complete and ref_err != got_err:
                self.v('binding', 'inline statement %r -> %s ; prepared execution -> %s' % (inline, ref_err or 'a plan', got_err or 'a plan'))
            self.log.append('exec err=%s' % got_err)
            return
        for st in self.steps:
            if _has_q_param(st):
                self.v('unbound', 'a Parameter(?) is left in executed step ' + O.dump_step(st)[:300])
                return
        got = [O.norm_text(O.dump_step(s)) for s in self.steps]
        want = [O.norm_text(O.dump_step(s)) for s in ref_steps]
        if not complete:
            want = want[:len(got)]
        if got != want:
            i = 0
            while i < min(len(got), len(want)) and got[i] == want[i]:
                i += 1
            self.v('binding', what + ' with values %r; inline statement %r plans differently at step %d:\n   inline:   %s\n   prepared: %s' % (
                [v for v, _ in vals], inline, i, (want[i] if i < len(want) else '<no step>')[:600], (got[i] if i < len(got) else '<no step>')[:600]))
        self.log.append('exec %d steps' % len(self.steps))


# ---------------------------------------------------------------------------------------------
def sanity(spec):
    """The generator's placeholder count (its own markers) against the lexer's PARAMETER count, per statement.  The two
    agree on the pinned tree for every layout (checked by every run); a disagreement is reported as a `param_count` violation:
    a lexer that loses or invents a placeholder (a comment rule that eats the next line, say) breaks the property before any
    planner code runs.  -> list of (session index, statement dict, detail)."""
    from mindsdb_sql import get_lexer_parser
    out = []
    for si, s in enumerate(spec['sessions']):
        for st in s['stmts']:
            marked = stmt_text(st)
            sql = marked.replace(MARK, '?')
            lexer, _ = get_lexer_parser(st.get('d', 'mindsdb'))
            try:
                n = sum(1 for t in lexer.tokenize(sql) if t.type == 'PARAMETER')
            except Exception:
                continue
            if n != marked.count(MARK):
                out.append((si, st, 'the %s lexer yields %d PARAMETER tokens for a text with %d placeholders: %r' % (st.get('d', 'mindsdb'), n, marked.count(MARK), sql)))
    return out


def run_child(spec):
    t0 = time.time()
    lex_viol = [{'kind': 'param_count', 'session': si_, 'stmt': st_, 'detail': d_, 'pc': -1} for si_, st_, d_ in sanity(spec)]
    shared = copy.deepcopy(CATALOGS) if spec.get('share_catalog') else None

    def cat_getter():
        if shared is not None:
            return lambda name: shared[name]
        return lambda name: copy.deepcopy(CATALOGS[name])

    sessions = [Session(i, sd, cat_getter()) for i, sd in enumerate(spec['sessions'])]
    if spec.get('share_values'):
        pool_ = {}
        for s_ in sessions:
            s_.shared_vals = pool_
    order = []
    steps = 0
    if spec.get('threads'):
        from .sched import Sim, Client
        from .child import resolve_scope

        def runner(op, env):
            s = sessions[op['sid']]
            while s.step():
                pass
            s.finish()
            return 'done'

        clients = [Client(i, [{'k': 'c12', 'sid': i}], None) for i in range(len(sessions))]
        sspec = {'gran': 'line', 'scope': resolve_scope(['repo']), 'fault_scope': resolve_scope(['repo']),
                 'strategy': spec['strategy'], 'sched_seed': spec.get('sched_seed', 0), 'faults': [], 'gcs_at': []}
        sim = Sim(sspec, clients, watchdog_s=120.0, runner=runner)
        if not sim.run():
            return {'harness_error': 'watchdog'}
        if sim.error:
            return {'harness_error': sim.error}
        for c in clients:
            if c.results and c.results[0] != 'done':
                return {'harness_error': 'session thread failed: %s' % c.results[0]}
        steps = sim.step
        sched = {'switches': sim.switches, 'finishes': sim.finishes, 'first': sim.first, 'nswitch': len(sim.switches)}
    else:
        sched = None
        fixed = spec.get('order')
        rng = random.Random(spec.get('order_seed', 0))
        alive = list(range(len(sessions)))
        i = 0
        while alive:
            if fixed is not None:
                if i < len(fixed) and fixed[i] in alive:
                    sid = fixed[i]
                else:
                    sid = alive[0]
                i += 1
            else:
                sid = alive[rng.randrange(len(alive))]
            order.append(sid)
            steps += 1
            try:
                more = sessions[sid].step()
            except Exception as e:
                import traceback
                return {'harness_error': 'session %d: %r\n%s' % (sid, e, traceback.format_exc())}
            if not more:
                sessions[sid].finish()
                alive.remove(sid)
    viol = list(lex_viol)
    obs = collections.Counter()
    for s in sessions:
        viol.extend(s.viol)
        obs.update(s.obs)
    nph = sum(text_of(st['chunks']).count(MARK) for s in spec['sessions'] for st in s['stmts'])
    sig = hashlib.sha256(json.dumps([order, [s.log for s in sessions]]).encode()).hexdigest()[:16]
    return {'violations': viol, 'order': order, 'steps': steps, 'obs': dict(obs), 'logs': [s.log for s in sessions] if spec.get('want_logs') else None,
            'sched': sched, 'placeholders': nph, 'sig': sig, 'wall': time.time() - t0,
            'switched': len(set(order)) > 1 and any(order[i] != order[i + 1] for i in range(len(order) - 1)) or bool(sched and sched['nswitch'])}


# ---------------------------------------------------------------------------------------------
# runner side
# ---------------------------------------------------------------------------------------------
ASSUMPTIONS = [
    'statement shapes come from a seeded recursive generator (DESIGN §5.C12), not from all SQL: 33 shapes and six flat shapes with 10-40 placeholders (select list, WHERE, ON, CASE operand / WHEN / THEN / ELSE, '
    'function arguments incl. FROM / FOR, count(distinct), extract, IN (also IN ?), tuples, IS, BETWEEN, CAST, window PARTITION / ORDER, sub-selects in FROM, WHERE, '
    'select list and on both join sides, three-way and outer joins, sub-select joined with a model, one and two CTEs, UNION, GROUP / HAVING / ORDER, LIMIT / OFFSET '
    '(rejected by the pinned grammars), INSERT VALUES rows of different layouts, INSERT SELECT, UPDATE SET / FROM / WHERE, DELETE, CREATE TABLE AS), three dialects',
    'the reference is plan_query(parse_sql(text with the values written inline)) with fresh planner and catalog objects in the same process',
    'values: unique ints / strings / floats, negative ints (mindsdb dialect only: the other grammars do not fold -5 into one constant), strings with "?", quotes, '
    'backslashes, the empty string, >64-bit ints, booleans, NULL, and a palette of values that compare equal across types',
    'not judged (property silent, only counted): info after execution, a second execute that is refused, exceptions other than PlanningException from column discovery '
    'when the stub executor misbehaves, statements the parser rejects',
    'a second execute (other values) that is accepted must plan for those values; the value list handed to execute_steps must be unchanged afterwards',
    'an execute generator iterated only after the same planner prepared / executed the next statement must still yield the plan of its own statement and values',
    'executor, integrations and models are stubs; no plan is executed',
]


def vsig(v):
    """Signature of a violation: kind + the marked statement text."""
    return [v['kind'], text_of(v['stmt']['chunks'])]


def classify_binding(v):
    """Key a binding violation by the AST position family it involves (for the known-findings file)."""
    return v['kind']


def test_spec_many(pool, specs, sig):
    out = [False] * len(specs)
    jobs = []
    for i, s in enumerate(specs):
        s = dict(s)
        s['_i'] = i
        jobs.append((None, s))
    for s, r in pool.run_jobs(jobs):
        if 'harness_error' in r:
            continue
        out[s['_i']] = any(vsig(v)[0] == sig[0] for v in r['violations'])
    return out


def minimise(spec, res, v, pool, max_execs=200, wall_s=60):
    """Shrink: other sessions, other statements of the session, script ops, optional statement chunks."""
    t_end = time.time() + wall_s
    kind = v['kind']
    sid = v['session']
    used = [0]

    def ok(cand):
        if used[0] >= max_execs or time.time() > t_end:
            return False
        used[0] += 1
        return test_spec_many(pool, [cand], [kind])[0]

    cur = copy.deepcopy(spec)
    cur['order'] = res.get('order') or None
    if cur.get('threads') and res.get('sched'):
        cur['strategy'] = {'kind': 'replay', 'switches': res['sched']['switches'], 'finishes': res['sched']['finishes'], 'first': res['sched']['first']}
    # 1. cooperative instead of threads, a single session
    cand = copy.deepcopy(cur)
    cand['threads'] = False
    cand['sessions'] = [cur['sessions'][sid]]
    cand['order'] = None
    if ok(cand):
        cur = cand
        sid = 0
    else:
        for i in range(len(cur['sessions']) - 1, -1, -1):
            if i == sid:
                continue
            cand = copy.deepcopy(cur)
            cand['sessions'][i] = {'stmts': cand['sessions'][i]['stmts'], 'script': []}
            if ok(cand):
                cur = cand
    # 2. script ops of every session, from the back
    for si in range(len(cur['sessions'])):
        j = len(cur['sessions'][si]['script']) - 1
        while j >= 0:
            cand = copy.deepcopy(cur)
            del cand['sessions'][si]['script'][j]
            cand['order'] = None
            if ok(cand):
                cur = cand
            j -= 1
    # 2b. the layout of every statement (back to the text as generated)
    for si in range(len(cur['sessions'])):
        for ti in range(len(cur['sessions'][si]['stmts'])):
            if cur['sessions'][si]['stmts'][ti].get('layout'):
                cand = copy.deepcopy(cur)
                cand['sessions'][si]['stmts'][ti].pop('layout')
                cand['order'] = None
                if ok(cand):
                    cur = cand
    # 3. optional chunks of every statement
    for si in range(len(cur['sessions'])):
        for ti in range(len(cur['sessions'][si]['stmts'])):
            j = len(cur['sessions'][si]['stmts'][ti]['chunks']) - 1
            while j >= 0:
                if cur['sessions'][si]['stmts'][ti]['chunks'][j][0] == 'o':
                    cand = copy.deepcopy(cur)
                    del cand['sessions'][si]['stmts'][ti]['chunks'][j]
                    cand['order'] = None
                    if ok(cand):
                        cur = cand
                j -= 1
    return cur, used[0]


def known_match(known, v):
    for k in known:
        mt = k.get('match', {})
        if not mt:
            continue
        if mt.get('kind') and mt['kind'] != v['kind']:
            continue
        if mt.get('stmt_regex') and not re.search(mt['stmt_regex'], text_of(v['stmt']['chunks']).replace(MARK, '?')):
            continue
        return k
    return None


def main(tier='quick', seed=0, repo=None):
    t0 = time.time()
    repo = repo or os.environ.get('VERIF_REPO')
    budget_s = float(os.environ.get('VERIF_BUDGET_S', '900' if tier == 'thorough' else '45'))
    n_runs = 6000 if tier == 'quick' else 10 ** 8
    print('[C12] tier=%s seed=%d repo=%s' % (tier, seed, repo or '/repo'), flush=True)
    stats = collections.Counter()
    obs = collections.Counter()
    sigs = set()
    shapes = collections.Counter()
    found = []
    found_sigs = set()
    samples = []
    harness = []
    nph_hist = collections.Counter()

    def on(spec, res):
        if 'harness_error' in res:
            harness.append((spec, res['harness_error']))
            return False
        stats['runs'] += 1
        stats['thread_events' if spec.get('threads') else 'session_steps'] += res['steps']
        stats['sessions'] += len(spec['sessions'])
        stats['placeholders'] += res['placeholders']
        stats['threads_runs'] += 1 if spec.get('threads') else 0
        if res.get('sched'):
            stats['thread_switches'] += res['sched']['nswitch']
        for s in spec['sessions']:
            for st in s['stmts']:
                stats['statements'] += 1
                nph_hist[text_of(st['chunks']).count(MARK)] += 1
                shapes[re.sub(r'\s.*', '', text_of(st['chunks']))] += 1
            for op in s['script']:
                stats['op_' + op[0]] += 1
                if op[0] in ('A', 'A*') and op[1] != 'ok':
                    stats['executor_fault_' + op[1]] += 1
                if op[0] == 'B':
                    stats['abandon_' + op[1]] += 1
        obs.update(res['obs'])
        if res['switched'] or any(op[0] in ('A', 'A*') and op[1] != 'ok' or op[0] in ('B', 'W') for s in spec['sessions'] for op in s['script']):
            stats['nontrivial'] += 1
            sigs.add(res['sig'])
        if len(samples) < 3 and len(spec['sessions']) > 1 and res['placeholders'] >= 3:
            samples.append({'seed': spec['seed'], 'threads': spec.get('threads'), 'sessions': [
                {'statements': [text_of(st['chunks']).replace(MARK, '?') for st in s['stmts']], 'script': s['script']} for s in spec['sessions']],
                'interleaving(session ids)': res['order'][:60], 'violations': len(res['violations'])})
        for v in res['violations']:
            stats['violating_checks'] += 1
            sg = tuple(vsig(v))
            if sg not in found_sigs:
                found_sigs.add(sg)
                found.append((spec, res, v))
        return None

    with Pool(list(range(16)), repo) as pool:
        base = seed * 1_000_000
        i = 0
        t_end = t0 + budget_s * 0.75
        while i < n_runs and time.time() < t_end and not harness:
            chunk = min(3200, n_runs - i)
            jobs = []
            for j in range(i, i + chunk):
                spec = gen_scenario(base + j)
                jobs.append((spec['hashseed'], spec))
            pool.run_jobs(jobs, on_result=on, deadline=t_end)
            i += chunk
        if harness:
            raise HarnessError('seed %s: %s' % (harness[0][0]['seed'], harness[0][1]))
        # ---- violations: group by kind + AST family, minimise, known-findings
        known = report.load_known(PROP)
        nviol = 0
        reported = set()
        known_hit = set()
        by_kind = collections.defaultdict(list)
        for spec, res, v in found:
            by_kind[v['kind']].append((spec, res, v))
        for kind, lst in sorted(by_kind.items()):
            # smallest statements first; report at most 4 per kind
            lst.sort(key=lambda x: len(text_of(x[2]['stmt']['chunks'])))
            shown = 0
            for spec, res, v in lst:
                k = known_match(known, v)
                if k is not None:
                    if k['id'] not in known_hit:
                        known_hit.add(k['id'])
                        print('KNOWN-FINDING: property=%s %s' % (PROP, k['what']), flush=True)
                    continue
                if shown >= 4:
                    continue
                mspec, used = minimise(spec, res, v, pool, 120 if tier == 'quick' else 300, 30 if tier == 'quick' else 120)
                mspec['want_logs'] = True
                r = pool.z[mspec.get('hashseed', 0) % 16].call(mspec)
                vv = [x for x in r.get('violations', []) if x['kind'] == kind]
                if not vv:
                    raise HarnessError('C12 violation (seed %s, %s) did not reproduce after minimisation' % (spec['seed'], kind))
                v2 = vv[0]
                stmt = stmt_text(v2['stmt']).replace(MARK, '?')
                if (kind, stmt) in reported:
                    continue
                if known_match(known, v2) is not None:
                    continue
                reported.add((kind, stmt))
                shown += 1
                nviol += 1
                data = {'property': PROP, 'kind': kind, 'seed': spec['seed'], 'hashseed': mspec.get('hashseed', 0), 'statement': stmt,
                        'detail': v2['detail'], 'minimisation_executions': used, 'session_logs': r.get('logs'),
                        'spec': {kk: vv_ for kk, vv_ in mspec.items() if kk != '_i'}}
                path = report.write_replay(PROP, '%s-%s' % (kind, spec['seed']), data)
                print('[C12] %s: %s\n  %s' % (kind, stmt, v2['detail'][:1500]), flush=True)
                report.violation_line(PROP, path)
    wall = time.time() - t0
    cov = {
        'evaluations': stats['runs'], 'distinct_nontrivial': len(sigs),
        'rule': 'an evaluation is one simulated run: 1-4 prepared-statement sessions (each 1-2 generated statements with 0-6 placeholders and a '
                'script of prepare / advance / info / wrong-arity execute / execute / advance / abandon ops) interleaved op by op by a seeded scheduler, '
                'with executor faults (none / empty / no result) during column discovery. Non-trivial: at least one executor fault, abandon, wrong-arity '
                'execute or session switch happened; distinct = SHA-256 over the interleaving and all session transcripts.',
        'samples': samples or [{'note': 'no multi-session run completed'}],
        'nontrivial_runs': stats['nontrivial'], 'sessions': stats['sessions'], 'statements': stats['statements'],
        'placeholders_total': stats['placeholders'], 'placeholders_per_statement_histogram': {str(k): v for k, v in sorted(nph_hist.items())},
        'session_steps_total (logical time, cooperative runs)': stats['session_steps'], 'line_events_total (threaded runs)': stats['thread_events'],
        'statement_kinds': dict(shapes), 'session_ops': {k[3:]: v for k, v in stats.items() if k.startswith('op_')},
        'executor_faults_injected': {k[15:]: v for k, v in stats.items() if k.startswith('executor_fault_')},
        'abandons': {k[8:]: v for k, v in stats.items() if k.startswith('abandon_')},
        'runs_on_baton_threads': stats['threads_runs'], 'thread_switches': stats['thread_switches'],
        'observations_not_judged': dict(obs),
        'runs_per_hour': int(stats['runs'] / max(wall, 1e-6) * 3600),
        'components': {'real': ['QueryPlanner / PreparedStatementPlanner / planner.utils (working tree)', 'parser (mindsdb dialect)'],
                       'stub': ['executor answering GetTableColumns / GetPredictorColumns', 'client sessions'],
                       'absent': ['network', 'disk', 'clock', 'integrations', 'models']},
        'exhaustive': False,
    }
    report.write_evidence(PROP, tier, seed, cov, ASSUMPTIONS, wall, nviol)
    print('[C12] %d runs, %d sessions, %d statements, %d placeholders, %d session steps (+%d line events in %d threaded runs), executor faults %s, %d distinct histories, %.1fs' % (
        stats['runs'], stats['sessions'], stats['statements'], stats['placeholders'], stats['session_steps'], stats['thread_events'], stats['threads_runs'],
        cov['executor_faults_injected'], len(sigs), wall), flush=True)
    return 1 if nviol else 0


def replay(path, repo=None):
    repo = repo or os.environ.get('VERIF_REPO')
    with open(path) as f:
        data = json.load(f)
    spec = data['spec']
    spec['want_logs'] = True
    with Pool([data.get('hashseed', 0)], repo) as p:
        r = p.z[0].call(spec)
    if 'harness_error' in r:
        raise HarnessError(r['harness_error'])
    vv = [v for v in r['violations'] if v['kind'] == data['kind']]
    print('[C12] replay seed=%s: %d violations' % (data.get('seed'), len(r['violations'])))
    for lg in r.get('logs') or []:
        print('   session log: %s' % lg)
    if vv:
        print('  %s: %s\n  %s' % (vv[0]['kind'], stmt_text(vv[0]['stmt']).replace(MARK, '?'), vv[0]['detail'][:1500]))
        print('  same detail as recorded: %s' % (vv[0]['detail'] == data['detail']))
        report.violation_line(PROP, path)
        return 1
    return 0
