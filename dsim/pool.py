"""Runner-side pool of zygotes.  Runner threads only move JSON around; they decide nothing about
a simulated run (a run is a pure function of its spec and of the zygote's hash seed)."""
import json
import os
import queue
import subprocess
import sys
import threading
import time

HERE = os.path.dirname(os.path.dirname(os.path.abspath(__file__)))
PY = sys.executable


class HarnessError(Exception):
    pass


class Zygote:
    def __init__(self, hashseed, repo=None):
        env = dict(os.environ)
        env['PYTHONHASHSEED'] = str(hashseed)
        env['PYTHONDONTWRITEBYTECODE'] = '1'
        env['PYTHONPATH'] = HERE
        if repo:
            env['VERIF_REPO'] = repo
        self.hashseed = hashseed
        self.p = subprocess.Popen([PY, '-X', 'faulthandler', '-m', 'dsim.zygote'], stdin=subprocess.PIPE,
                                  stdout=subprocess.PIPE, stderr=subprocess.PIPE, env=env, cwd=HERE, text=True, bufsize=1)
        self.ready = False
        self.lock = threading.Lock()
        self._err = []
        t = threading.Thread(target=self._drain, daemon=True)
        t.start()

    def _drain(self):
        for line in self.p.stderr:
            self._err.append(line)
            if len(self._err) > 400:
                del self._err[:200]

    def wait_ready(self):
        if self.ready:
            return
        line = self.p.stdout.readline()
        if not line:
            raise HarnessError('zygote (hashseed %s) died at start-up:\n%s' % (self.hashseed, ''.join(self._err[-40:])))
        self.ready = True

    def call(self, spec):
        with self.lock:
            self.wait_ready()
            try:
                self.p.stdin.write(json.dumps(spec) + '\n')
                self.p.stdin.flush()
                line = self.p.stdout.readline()
            except (BrokenPipeError, OSError) as e:
                raise HarnessError('zygote pipe: %r\n%s' % (e, ''.join(self._err[-40:])))
            if not line:
                raise HarnessError('zygote (hashseed %s) died:\n%s' % (self.hashseed, ''.join(self._err[-40:])))
            return json.loads(line)

    def stderr_tail(self):
        return ''.join(self._err[-60:])

    def close(self):
        try:
            self.p.stdin.write(json.dumps({'cmd': 'quit'}) + '\n')
            self.p.stdin.flush()
            self.p.stdin.close()
        except Exception:
            pass
        try:
            self.p.wait(timeout=5)
        except Exception:
            self.p.kill()


class Pool:
    """`hashseeds`: one zygote per entry (entries may repeat)."""

    def __init__(self, hashseeds, repo=None):
        self.z = [Zygote(h, repo) for h in hashseeds]
        self.hashseeds = list(hashseeds)

    def close(self):
        for z in self.z:
            z.close()

    def __enter__(self):
        return self

    def __exit__(self, *a):
        self.close()

    def run_jobs(self, jobs, on_result=None, deadline=None):
        """jobs: iterable of (slot, spec) where slot selects the zygote (slot % len) or None for any.
        Returns list of (spec, result) in completion order; calls on_result(spec, result).
        Stops feeding new jobs once time.time() > deadline."""
        n = len(self.z)
        qs = [queue.Queue() for _ in range(n)]
        anyq = queue.Queue()
        cnt = 0
        for slot, spec in jobs:
            if slot is None:
                anyq.put(spec)
            else:
                qs[slot % n].put(spec)
            cnt += 1
        results = []
        rl = threading.Lock()
        errors = []
        stop = threading.Event()

        def worker(i):
            z = self.z[i]
            while not stop.is_set():
                if deadline is not None and time.time() > deadline:
                    return
                try:
                    spec = qs[i].get_nowait()
                except queue.Empty:
                    try:
                        spec = anyq.get_nowait()
                    except queue.Empty:
                        return
                try:
                    res = z.call(spec)
                except HarnessError as e:
                    errors.append(str(e))
                    stop.set()
                    return
                with rl:
                    results.append((spec, res))
                    if on_result is not None:
                        try:
                            if on_result(spec, res) is False:
                                stop.set()
                        except Exception as e:  # noqa
                            import traceback
                            errors.append('on_result: %r\n%s' % (e, traceback.format_exc()))
                            stop.set()

        ts = [threading.Thread(target=worker, args=(i,), daemon=True) for i in range(n)]
        for t in ts:
            t.start()
        for t in ts:
            t.join()
        if errors:
            raise HarnessError(errors[0])
        return results
