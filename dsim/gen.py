"""Scenario generation: one integer -> one complete run spec (DESIGN §3.4, §3.5, §4).
Everything random about a run is drawn here from random.Random(seed-string) or, for online
scheduling decisions, from random.Random(spec['sched_seed']) inside the child."""
import random
import re

from . import ops as O

HASHSEEDS = list(range(16))
INSTR_FACTOR = 4.6      # measured ratio of INSTRUCTION to LINE events on this code base


def _weighted(rng, pairs):
    r = rng.random() * sum(w for _, w in pairs)
    for v, w in pairs:
        r -= w
        if r <= 0:
            return v
    return pairs[-1][0]


def hashseed_for(seed):
    return HASHSEEDS[seed % len(HASHSEEDS)]


_CLS = re.compile(r'_(c?\d+|mysql|postgresql|sqlite|mssql|oracle|postgres|Snowflake)$')


def family_classes(corpus):
    """Families grouped into classes (errstate_NN -> errstate, cat_cNN -> cat, ...): a run first picks a
    class uniformly, then a member, so that sixty error-state families do not crowd out the planner ones."""
    cl = {}
    for f in sorted(corpus['families']):
        cl.setdefault(_CLS.sub('', f), []).append(f)
    return cl


QUICK = [False]        # set by the driver: the quick tier leaves the heavy (deep-input) family to the thorough tier


def _subcorpus(rng, corpus):
    classes = family_classes(corpus)
    names = sorted(n for n in classes if not (QUICK[0] and n.startswith('deep_')))
    chosen = []
    for _ in range(_weighted(rng, [(1, 5), (2, 4), (3, 1)])):
        c = names[rng.randrange(len(names))]
        f = classes[c][rng.randrange(len(classes[c]))]
        if f not in chosen:
            chosen.append(f)
    sub = []
    for f in chosen:
        lst = corpus['families'][f]
        sub += rng.sample(lst, min(len(lst), rng.randint(2, 6)))
    pool = corpus['pool']
    for _ in range(rng.randint(0, 3)):
        sub.append(pool[rng.randrange(len(pool))])
    return chosen, sub


_STRATA = {}


def strata(corpus, ref):
    """Pool ops grouped by (kind, dialect, accepted/rejected): an S2 'stratum sweep' draws a whole history
    from one group, so that state keyed on less than the full input (a memo on the parser state, on a
    dialect, on a catalog) is hit by two different inputs that share the key."""
    key = id(corpus)
    if key not in _STRATA:
        st = {}
        hints = corpus.get('hints') or {}
        for op in corpus['pool']:
            cls = (hints.get(O.op_key(op)) or ['ok'])[0]
            st.setdefault('%s/%s/%s/%s' % (op['k'], op.get('d', ''), op.get('rd', op.get('cat', '')) if op['k'] != 'parse' else '', cls), []).append(op)
        _STRATA[key] = {k: v for k, v in st.items() if len(v) >= 8}
    return _STRATA[key]


def _strategy(rng, est):
    k = _weighted(rng, [('bernoulli', 4), ('pct', 3), ('rr', 2), ('focus', 3)])
    if k == 'focus':
        return {'kind': k, 'p': rng.choice([0.3, 0.5, 1.0]), 'pick': rng.randrange(1 << 20), 'instr': rng.random() < 0.4}
    # (dense strategies are thinned out for long runs: about 25 000 hand-overs per run at most, going by the static hints)
    if k == 'bernoulli':
        return {'kind': k, 'p': min(rng.choice([0.001, 0.003, 0.01, 0.02, 0.05]), max(0.0005, 25000.0 / max(est, 1)))}
    if k == 'pct':
        return {'kind': k, 'd': rng.choice([1, 2, 3, 5]), 'est': est}
    # (a quantum of 1 event = one thread hand-over per line costs ~80 us each: 20 s for a 250 k-event run; 3 is the floor)
    return {'kind': k, 'q': max(rng.choice([3, 7, 50, 400, 2000]), est // 25000)}


_HINTS = {}


def set_hints(corpus):
    _HINTS.clear()
    _HINTS.update(corpus.get('hints') or {})


def _ev(ref, op, gran):
    # generation is a pure function of (seed, corpus): only the corpus' static hints are used here, never the
    # reference table of the current check run (`ref` is kept in the signature and ignored)
    n = (_HINTS.get(O.op_key(op)) or ['ok', 3000])[1]
    if gran == 'instr':
        n = int(n * INSTR_FACTOR)
    return max(n, 1)


def gen_s1(seed, corpus, ref, instr_frac=0.1, sa_frac=0.0):
    rng = random.Random('C20/S1/%d' % seed)
    fams, sub = _subcorpus(rng, corpus)
    ncl = _weighted(rng, [(2, 4), (3, 4), (4, 2)])
    clients = [[sub[rng.randrange(len(sub))] for _ in range(rng.randint(2, 8))] for _ in range(ncl)]
    gran = 'instr' if rng.random() < instr_frac else 'line'
    if gran == 'instr':
        # bytecode granularity costs ~4.6x the events: keep such runs short
        clients = [cl[:3] for cl in clients]
    # heavy ops (deep inputs): at most one per client, none at bytecode granularity
    light = _light_ops(sub)
    seen_heavy = False          # one heavy op per run
    for cl in clients:
        for j, op in enumerate(cl):
            hev = (_HINTS.get(O.op_key(op)) or ['ok', 0])[1]
            if hev > HEAVY_EV:
                # (the quick tier admits one moderately heavy op per run: the caller-built condition chains)
                if seen_heavy or gran == 'instr' or (QUICK[0] and hev > QUICK_HEAVY_EV):
                    cl[j] = light[rng.randrange(len(light))]
                else:
                    seen_heavy = True
    scope = ['repo'] + (['sqlalchemy', 'copy'] if rng.random() < sa_frac else [])
    est = sum(_ev(ref, op, gran) for cl in clients for op in cl)
    if seen_heavy:
        # millions of events: only strategies with few hand-overs
        strat_override = {'kind': 'pct', 'd': rng.choice([1, 2, 3]), 'est': est} if rng.random() < 0.5 else {'kind': 'bernoulli', 'p': 0.0005}
    else:
        strat_override = None
    spec = {
        'cmd': 'sim', 'property': 'C20', 'sub': 'S1', 'seed': seed, 'hashseed': hashseed_for(seed),
        'families': fams, 'clients': clients, 'gran': gran, 'scope': scope,
        'cat_mode': _weighted(rng, [('shared', 7), ('client', 2), ('op', 1)]),
        'rnd_mode': _weighted(rng, [('shared', 6), ('client', 2), ('op', 2)]),
        'meta_share': rng.random() < 0.6, 'tree_share': rng.random() < 0.2, 'scribble': rng.random() < 0.25,
        'strategy': _strategy(rng, est), 'sched_seed': rng.randrange(1 << 30),
        'faults': [], 'gcs_at': [],
    }
    if strat_override:
        spec['strategy'] = strat_override
    if rng.random() < 0.4:
        for _ in range(_weighted(rng, [(1, 6), (2, 3), (3, 1)])):
            c = rng.randrange(ncl)
            # a third of the faults go into a client's first op: lazy initialisation happens at first use
            oi = 0 if rng.random() < 0.33 else rng.randrange(len(clients[c]))
            n = _ev(ref, clients[c][oi], gran)
            kind = _weighted(rng, [('abort', 6), ('mem', 2), ('rec', 2)])
            spec['faults'].append([c, oi, rng.randint(1, n), kind])
    if rng.random() < 0.3:
        for _ in range(rng.randint(1, 3)):
            c = rng.randrange(ncl)
            oi = rng.randrange(len(clients[c]))
            spec['gcs_at'].append([c, oi, rng.randint(1, _ev(ref, clients[c][oi], gran))])
    if rng.random() < AGED_FRAC[0]:
        spec['pre'] = gen_prehistory(rng, corpus, sub)
    return spec


AGED_FRAC = [0.12]


def gen_prehistory(rng, corpus, sub):
    """An 'aged process': ops that the process has served, single-threaded and without event delivery, BEFORE the
    simulated clients start.  Whatever a long-running server accumulates (memo tables near their capacity, lazily filled
    registries, counters) is then in place when the threads meet.  Drawn from the run's own sub-corpus (the same keys),
    the pool, and -- in half of the cases -- the wide inputs, whose many distinct names fill anything with a capacity."""
    pool = corpus['pool']
    n = rng.choice([20, 40, 80, 160])
    src = _light_ops(list(sub)) + [pool[rng.randrange(len(pool))] for _ in range(n)]
    src = _light_ops(src)
    pre = [src[rng.randrange(len(src))] for _ in range(n)]
    wide = [op for op in corpus['families'].get('wide_inputs', []) if op.get('ast', '').startswith('wide_') or 'wp' in op.get('sql', '') or "'s" in op.get('sql', '')]
    wide = [op for op in wide if (_HINTS.get(O.op_key(op)) or ['ok', 0])[1] <= 400000]
    if wide and rng.random() < 0.5:
        for _ in range(rng.randint(1, 6)):
            pre.insert(rng.randrange(len(pre) + 1), wide[rng.randrange(len(wide))])
    return pre


def gen_s2(seed, corpus, ref):
    """Single client, long history, reused catalogs and renderers, failed and aborted calls."""
    rng = random.Random('C20/S2/%d' % seed)
    fams, sub = _subcorpus(rng, corpus)
    pool = corpus['pool']
    for _ in range(rng.randint(2, 10)):
        sub.append(pool[rng.randrange(len(pool))])
    n = rng.randint(10, 40)
    if rng.random() < 0.35:
        st = strata(corpus, ref)
        names = sorted(st)
        name = names[rng.randrange(len(names))]
        fams = ['stratum:' + name]
        lst = st[name]
        sub = [lst[rng.randrange(len(lst))] for _ in range(rng.randint(6, 30))]
    ops = [sub[rng.randrange(len(sub))] for _ in range(n)]
    spec = {
        'cmd': 'sim', 'property': 'C20', 'sub': 'S2', 'seed': seed, 'hashseed': hashseed_for(seed),
        'families': fams, 'clients': [ops], 'gran': 'line', 'scope': ['repo'],
        'cat_mode': _weighted(rng, [('shared', 8), ('op', 2)]),
        'rnd_mode': _weighted(rng, [('shared', 8), ('op', 2)]),
        'meta_share': rng.random() < 0.7, 'scribble': rng.random() < 0.3,
        'strategy': {'kind': 'none'}, 'sched_seed': 0, 'faults': [], 'gcs_at': [],
    }
    if rng.random() < 0.5:
        first = [rng.randrange(2)] if rng.random() < 0.4 else []
        for oi in sorted(set(first + rng.sample(range(n), min(n, rng.randint(1, 4))))):
            k = _ev(ref, ops[oi], 'line')
            kind = _weighted(rng, [('abort', 6), ('mem', 2), ('rec', 2)])
            spec['faults'].append([0, oi, rng.randint(1, k), kind])
    if rng.random() < 0.3:
        for _ in range(rng.randint(1, 3)):
            oi = rng.randrange(n)
            spec['gcs_at'].append([0, oi, rng.randint(1, _ev(ref, ops[oi], 'line'))])
    return spec


def attach(spec, ref, probes):
    """Add the oracle data a child needs: expected digests, budgets, probe ops."""
    exp, bud = {}, {}
    f = INSTR_FACTOR if spec.get('gran') == 'instr' else 1.0
    if 'sqlalchemy' in spec.get('scope', []):
        f *= 12
    for op in spec.get('pre') or []:
        k = O.op_key(op)
        if k in ref:
            exp[k] = ref[k]['dg']
    for cl in spec['clients']:
        for op in cl:
            k = O.op_key(op)
            r = ref.get(k)
            if r is not None:
                exp[k] = r['dg']
                ev = r.get('ev')
                if ev is None:
                    ev = (_HINTS.get(k) or ['ok', 5000])[1]
                bud[k] = int(20 * f * ev) + 10000
    for op in probes:
        k = O.op_key(op)
        if k in ref:
            exp[k] = ref[k]['dg']
    spec['expected'] = exp
    spec['budget'] = bud
    spec['probes'] = probes
    return spec


def gen_sweep_base(seed, corpus, ref, fam, fam2=None):
    """Base spec of a focus sweep: two (sometimes three) clients running shuffled ops of ONE family -- or, with fam2, of two
    members of one family class alternately (the same code under two dialects / catalogs at the same time); the caller
    adds one run per contended function with strategy 'focus' on it."""
    rng = random.Random('C20/SWEEP/%d/%s/%s' % (seed, fam, fam2))
    pools = []
    for f in ([fam] if fam2 is None else [fam, fam2]):
        # (quick tier: the family without its really heavy members; the moderately heavy ones stay, a sweep scenario is a handful of ops)
        lst = _light_ops(corpus['families'][f], QUICK_HEAVY_EV) if QUICK[0] else corpus['families'][f]
        pools.append(rng.sample(lst, min(len(lst), 8)))
    ncl = _weighted(rng, [(2, 8), (3, 2)])
    clients = []
    # 'twin' scenarios: every client has the SAME few ops (in its own order) and the run shares parsed trees, i.e. several
    # threads work on one statement object at the same time; always so for the family of ops that edit the tree they are given
    twin = fam2 is None and (fam.startswith('render_edits_tree') or rng.random() < 0.2)
    if twin:
        same = list(pools[0])
        rng.shuffle(same)
        same = same[:rng.randint(1, 3)]
    for i in range(ncl):
        perm = list(pools[i % len(pools)]) if not twin else list(same)
        rng.shuffle(perm)
        clients.append(perm[:rng.randint(2, 4)])
    if QUICK[0]:
        # quick tier: a sweep scenario stays below ~350 k line events (a 700 k-event focus run takes 19 s and overruns the phase)
        def _h(op_):
            return (_HINTS.get(O.op_key(op_)) or ['ok', 3000])[1]
        while sum(_h(o) for cl in clients for o in cl) > 350000:
            big = max(((c_i, o_i) for c_i, cl in enumerate(clients) for o_i in range(len(cl))), key=lambda t: _h(clients[t[0]][t[1]]))
            if len(clients[big[0]]) <= 1:
                break
            del clients[big[0]][big[1]]
    return {
        'cmd': 'sim', 'property': 'C20', 'sub': 'S1', 'seed': seed, 'hashseed': hashseed_for(seed),
        'families': [fam] if fam2 is None else [fam, fam2],
        'clients': clients, 'gran': 'line', 'scope': ['repo'], 'cat_mode': 'shared', 'rnd_mode': 'shared', 'meta_share': True,
        'tree_share': twin or rng.random() < 0.3,
        'strategy': {'kind': 'focus'}, 'sched_seed': rng.randrange(1 << 30), 'faults': [], 'gcs_at': [],
    }


def gen_s2_long(seed, corpus, ref=None):
    """Long single-client history (120-250 ops) over one stratum, a few related strata, or the whole pool: a history of
    n ops exercises n^2/2 ordered (earlier, later) pairs in one process, so state that one input leaves behind for
    another is met even when nobody thought of putting the two into one family.  Events are only delivered during the
    few ops that carry an injected fault."""
    rng = random.Random('C20/S2L/%d' % seed)
    st = strata(corpus, ref)
    names = sorted(st)
    mode = _weighted(rng, [('stratum', 5), ('kind', 3), ('pool', 2)])
    if mode == 'stratum':
        name = names[rng.randrange(len(names))]
        src = list(st[name])
        label = 'long:' + name
    elif mode == 'kind':
        kind = rng.choice(['parse', 'plan', 'render', 'render'])
        cands = [n_ for n_ in names if n_.startswith(kind + '/')]
        picked = rng.sample(cands, min(len(cands), rng.randint(2, 4)))
        src = [op for n_ in picked for op in st[n_]]
        label = 'long:' + '+'.join(picked)
    else:
        src = corpus['pool']
        label = 'long:pool'
    # family ops of matching kinds are mixed in, they are the inputs chosen to collide
    fam_names = sorted(corpus['families'])
    extra = []
    for _ in range(3):
        extra += corpus['families'][fam_names[rng.randrange(len(fam_names))]]
    n = rng.randint(120, 250)
    src = _light_ops(src)
    extra = _light_ops(extra) if extra else extra
    ops = []
    for _ in range(n):
        if extra and rng.random() < 0.15:
            ops.append(extra[rng.randrange(len(extra))])
        else:
            ops.append(src[rng.randrange(len(src))])
    spec = {
        'cmd': 'sim', 'property': 'C20', 'sub': 'S2', 'seed': seed, 'hashseed': hashseed_for(seed), 'families': [label],
        'clients': [ops], 'gran': 'line', 'scope': ['repo'], 'cat_mode': _weighted(rng, [('shared', 8), ('op', 2)]),
        'rnd_mode': _weighted(rng, [('shared', 8), ('op', 2)]), 'meta_share': rng.random() < 0.7, 'scribble': rng.random() < 0.3,
        'strategy': {'kind': 'none'}, 'sched_seed': 0, 'faults': [], 'gcs_at': [], 'lazy_events': True, 'long': True,
    }
    if rng.random() < 0.6:
        first = [rng.randrange(3)] if rng.random() < 0.5 else []       # first uses: lazy initialisation windows
        for oi in sorted(set(first + rng.sample(range(n), rng.randint(1, 5)))):
            kind = _weighted(rng, [('abort', 6), ('mem', 2), ('rec', 2)])
            spec['faults'].append([0, oi, rng.randint(1, _ev(None, ops[oi], 'line')), kind])
    if rng.random() < 0.3:
        for _ in range(rng.randint(1, 3)):
            oi = rng.randrange(n)
            spec['gcs_at'].append([0, oi, rng.randint(1, _ev(None, ops[oi], 'line'))])
    return spec


HEAVY_EV = 40000
QUICK_HEAVY_EV = 120000


def _light_ops(ops, limit=None):
    """Ops whose static hint says they take more than HEAVY_EV line events (the deep inputs) stay out of the long,
    un-instrumented histories: there they would only cost seconds each; they are exercised by S1 runs and S3."""
    out = [op for op in ops if (_HINTS.get(O.op_key(op)) or ['ok', 0])[1] <= (limit or HEAVY_EV)]
    return out or list(ops)


def gen_family_history(seed, corpus, fam):
    """Systematic counterpart of the random histories: ALL ops of one family (capped) in one process, shuffled, twice, with
    shared catalogs and renderers: every ordered pair of family members is met.  No faults, no event delivery: cheap enough
    to be done for every family in every quick run."""
    rng = random.Random('C20/FAMHIST/%d/%s' % (seed, fam))
    lst = _light_ops(corpus['families'][fam])
    rng.shuffle(lst)
    lst = lst[:45]
    second = list(lst)
    rng.shuffle(second)
    return {
        'cmd': 'sim', 'property': 'C20', 'sub': 'S2', 'seed': seed, 'hashseed': hashseed_for(seed), 'families': ['famhist:' + fam],
        'clients': [lst + second], 'gran': 'line', 'scope': ['repo'], 'cat_mode': 'shared', 'rnd_mode': 'shared', 'meta_share': True,
        'strategy': {'kind': 'none'}, 'sched_seed': 0, 'faults': [], 'gcs_at': [], 'lazy_events': True, 'long': True, 'famhist': True,
        'scribble': True,
    }


RENDER_NAMES = ['mysql', 'postgresql', 'postgres', 'sqlite', 'mssql', 'oracle', 'Snowflake']


def gen_tree_histories(seed, corpus, quick):
    """One tree, every renderer: a caller that parses a statement once and renders the same tree object for several back
    ends (MindsDB does, when a query goes to more than one integration).  Systematic: the distinct render statements of the
    corpus families (quick tier: the DDL / type / statement-kind classes whole plus a seeded sample of the others; thorough:
    all of them), six per history, each rendered under every dialect name in a shuffled order, interleaved, on ONE shared tree
    per statement, single client, no event delivery.  What one renderer does to the tree it is given must not show in what
    the next one produces from it."""
    rng = random.Random('C20/TREEHIST/%d' % seed)
    whole_cls = ('render_types', 'render_ddl', 'render_kinds', 'render_edits_tree', 'render_built', 'render_custom_dialect')
    first, rest, seen = [], [], set()
    for f in sorted(corpus['families']):
        for op in _light_ops(corpus['families'][f]):
            if op.get('k') != 'render' or op.get('wp'):
                continue
            key = (op.get('d'), op.get('sql'), op.get('ast'))
            if key in seen:
                continue
            seen.add(key)
            (first if f.startswith(whole_cls) else rest).append(op)
    rng.shuffle(rest)
    stmts = first + (rest[:60] if quick else rest)
    rng.shuffle(stmts)
    out = []
    for i in range(0, len(stmts), 6):
        ops = []
        for op in stmts[i:i + 6]:
            for rd in RENDER_NAMES:
                o = {k: v for k, v in op.items() if k in ('k', 'd', 'sql', 'ast')}
                o['rd'] = rd
                o['fb'] = True
                ops.append(o)
        rng.shuffle(ops)
        out.append({
            'cmd': 'sim', 'property': 'C20', 'sub': 'S2', 'seed': seed + len(out), 'hashseed': hashseed_for(seed + len(out)), 'families': ['treehist'],
            'clients': [ops], 'gran': 'line', 'scope': ['repo'], 'cat_mode': 'shared', 'rnd_mode': rng.choice(['shared', 'op']), 'meta_share': True,
            'tree_share': True, 'strategy': {'kind': 'none'}, 'sched_seed': 0, 'faults': [], 'gcs_at': [], 'lazy_events': True, 'long': True, 'treehist': True,
        })
    return out
