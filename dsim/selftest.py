"""Trusting the simulator itself (DESIGN §6).

  determinism: many seeds, each executed twice in different zygote processes and at two worker
               counts, per-event digests / observables / recorded schedules diffed; the whole thing
               again with another PYTHONHASHSEED for the *runner*.
  mutants:     every /verif/mutants/*.patch and /verif/seeded/*/patch.diff applied to a scratch copy
               of /repo's working tree (under $TMPDIR, deleted afterwards); the check of the property
               it breaks must report a VIOLATION within the quick budget.
"""
import glob
import hashlib
import json
import os
import shutil
import subprocess
import sys
import tempfile
import time

from . import gen, refs, c12
from . import ops as O
from .child import corpus
from .pool import Pool, HarnessError, HERE, PY


def _c20_specs(seed, n, ref):
    c = corpus()
    gen.set_hints(c)
    out = []
    fams = sorted(c['families'])
    wfns = [['mindsdb_sql/parser/ast/select/identifier.py', 'get_reserved_words', 25],
            ['mindsdb_sql/planner/query_planner.py', 'get_predictor', 99], ['mindsdb_sql/render/sqlalchemy_render.py', 'get_query', 690]]
    for i in range(n):
        s = seed * 1_000_000 + i
        if i % 13 == 5:
            spec = gen.gen_s2_long(s, c, ref)
            spec['clients'] = [spec['clients'][0][:60]]
            spec['faults'] = [f for f in spec['faults'] if f[1] < 60]
            spec['gcs_at'] = [g for g in spec['gcs_at'] if g[1] < 60]
        elif i % 13 == 7:
            spec = gen.gen_family_history(s, c, fams[i % len(fams)])
        elif i % 13 == 9:
            # sweep / state-directed shapes: several focus functions, bytecode-level events in one of them, faults inside
            spec = gen.gen_sweep_base(s, c, ref, fams[(i * 7) % len(fams)])
            spec['strategy'] = {'kind': 'focus', 'fns': wfns, 'p': 0.3}
            spec['instr_fn'] = wfns[i % 3]
            spec['focus_faults'] = [[0, 2 + i % 5, 'abort']]
        elif i % 13 == 3:
            # capacity-directed shape: the process is aged (child.pre_fill) while a container is watched, then a focus run
            spec = gen.gen_sweep_base(s, c, ref, fams[(i * 5) % len(fams)])
            spec['strategy'] = {'kind': 'focus', 'fns': wfns, 'p': 0.3}
            spec['pre_fill'] = {'paths': ['mindsdb_sql.parser.ast.select.identifier.RESERVED_KEYWORDS'], 'delta': i % 5, 'tag': 'q%d' % (i % 3), 'max_ops': 150}
        elif i % 13 == 1 and i % 2 == 1:
            # abort-point shape: fault at a planned event of the first op, the same thread goes on
            spec = gen.gen_s2(s, c, ref)
            spec['clients'] = [spec['clients'][0][:5]]
            spec['faults'] = [[0, 0, 1 + (i * 37) % 900, 'abort' if i % 3 else 'mem']]
            spec['gcs_at'] = []
            spec['lazy_events'] = True
        elif i % 13 == 11:
            # tree histories: every dialect name on one shared tree per statement
            ths = gen.gen_tree_histories(s, c, True)
            spec = ths[i % len(ths)]
        elif i % 3 == 2:
            spec = gen.gen_s2(s, c, ref)
        else:
            spec = gen.gen_s1(s, c, ref, 0.15, 0.1 if i % 10 == 0 else 0.0)
            if i % 4 == 0 and not spec.get('pre'):
                # aged process: a single-threaded prehistory before the clients start
                import random as _r
                spec['pre'] = gen.gen_prehistory(_r.Random('selftest/%d' % s), c, [op for cl in spec['clients'] for op in cl])[:40]
        spec = gen.attach(spec, ref, c['probes'])
        spec['full_digest'] = True
        out.append(spec)
    return out


def _key(res):
    if 'harness_error' in res:
        return 'HE:' + res['harness_error'][:200]
    if 'digest' in res:
        return json.dumps([res['digest'], res['results'], res['switches'], res['finishes'], res['fired'], res['steps'], res['op_evs']])
    return json.dumps([res['sig'], res['order'], res['steps'], [v['kind'] for v in res['violations']], res.get('sched')])


def determinism(seed, n, inner=False):
    t0 = time.time()
    n = n or 240
    repo = os.environ.get('VERIF_REPO')
    with Pool([0] * 8, repo) as rp:
        oplist = list(refs.all_ops().values())
        ref, _ = refs.compute(rp, oplist)
    specs = _c20_specs(seed, n, ref) + [c12.gen_scenario(seed * 1_000_000 + i) for i in range(n)]
    keys = []
    for workers in (16, 4):
        for rep in range(2 if workers == 16 else 1):
            hs = [i % 16 for i in range(workers)] if workers == 16 else [0, 1, 2, 3]
            # spec -> zygote of its hash seed; with 4 workers only seeds with hashseed<4 are run
            with Pool(hs, repo) as p:
                jobs = []
                for i, s in enumerate(specs):
                    h = s['hashseed']
                    if h in hs:
                        s2 = dict(s)
                        s2['_i'] = i
                        jobs.append((hs.index(h), s2))
                got = {}
                for s, r in p.run_jobs(jobs):
                    got[s['_i']] = _key(r)
                keys.append(got)
    bad = []
    for i in range(len(specs)):
        vals = {k[i] for k in keys if i in k}
        if len(vals) != 1:
            bad.append(i)
        for v in vals:
            if v.startswith('HE:'):
                raise HarnessError('determinism self-test: run %d failed: %s' % (i, v))
    overall = hashlib.sha256(json.dumps([keys[0][i] for i in range(len(specs))]).encode()).hexdigest()[:20]
    print('[selftest] determinism: %d specs x 3 executions (2 x 16 workers, 1 x 4 workers), %d diverged, overall digest %s, %.1fs' % (
        len(specs), len(bad), overall, time.time() - t0), flush=True)
    if bad:
        for i in bad[:5]:
            print('  diverged: spec %d seed %s sub %s' % (i, specs[i].get('seed'), specs[i].get('sub', 'c12')))
        return 1
    if not inner:
        # the runner's own hash seed must not matter
        env = dict(os.environ)
        env['PYTHONHASHSEED'] = '4242' if os.environ.get('PYTHONHASHSEED') != '4242' else '77'
        env['VERIF_SELFTEST_INNER'] = '1'
        p = subprocess.run([PY, os.path.join(HERE, 'cli.py'), 'selftest', 'determinism', '--n', str(n)], env=env, cwd=HERE,
                           capture_output=True, text=True, timeout=3600)
        sys.stdout.write(p.stdout)
        other = [l for l in p.stdout.splitlines() if 'overall digest' in l]
        if p.returncode != 0 or not other or overall not in other[0]:
            print('[selftest] determinism: runner under another PYTHONHASHSEED gave a different overall digest', flush=True)
            return 1
        print('[selftest] determinism: identical under another runner PYTHONHASHSEED', flush=True)
    return 0


def scratch_copy():
    """Copy of /repo's *working tree* (tracked files as they are on disk) outside /repo and /verif."""
    repo = os.environ.get('VERIF_REPO', '/repo')
    d = tempfile.mkdtemp(prefix='dsim_scratch_')
    files = subprocess.run(['git', '-C', repo, 'ls-files', '-z'], capture_output=True, check=True).stdout.decode().split('\0')
    for f in files:
        if not f or f.startswith('tests/'):
            continue
        src = os.path.join(repo, f)
        if not os.path.isfile(src):
            continue
        dst = os.path.join(d, f)
        os.makedirs(os.path.dirname(dst), exist_ok=True)
        shutil.copy2(src, dst)
    return d


def mutant_list():
    out = []
    for p in sorted(glob.glob(os.path.join(HERE, 'mutants', '*.patch'))):
        name = os.path.basename(p)[:-6]
        out.append((name, 'C20' if name.startswith('c20') else 'C12', p))
    for mp in sorted(glob.glob(os.path.join(HERE, 'seeded', '*', 'meta.json'))):
        with open(mp) as f:
            meta = json.load(f)
        out.append(('seeded/' + os.path.basename(os.path.dirname(mp)), meta['property'], os.path.join(os.path.dirname(mp), 'patch.diff')))
    return out


def run_mutant(name, prop, patch, seed, tier='quick'):
    d = scratch_copy()
    outd = tempfile.mkdtemp(prefix='dsim_out_')
    try:
        r = subprocess.run(['git', 'apply', '--unsafe-paths', '--directory=' + d, patch], capture_output=True, text=True, cwd='/')
        if r.returncode != 0:
            r = subprocess.run(['patch', '-p1', '-s', '-d', d, '-i', patch], capture_output=True, text=True)
            if r.returncode != 0:
                return 'patch-failed', r.stderr[-400:], 0.0
        env = dict(os.environ)
        env['VERIF_REPO'] = d
        env['VERIF_OUT'] = outd
        env['VERIF_SEED'] = str(seed)
        env.setdefault('VERIF_MAX_VIOLATIONS', '1')      # only the verdict counts here: stop at the first deviation
        t0 = time.time()
        p = subprocess.run([PY, os.path.join(HERE, 'cli.py'), 'check', prop, '--tier', tier], env=env, cwd=HERE, capture_output=True, text=True, timeout=3600)
        dt = time.time() - t0
        lines = [l for l in p.stdout.splitlines() if l.startswith('VIOLATION') or l.startswith('HARNESS-ERROR')]
        first = ''
        for l in p.stdout.splitlines():
            if l.startswith('[%s]' % prop) and ('violation' in l or ': ' in l) and 'tier=' not in l and 'reference table' not in l:
                first = l[:300]
                break
        if p.returncode == 1 and any(l.startswith('VIOLATION property=%s' % prop) for l in lines):
            return 'caught', first, dt
        if p.returncode == 0:
            return 'MISSED', p.stdout[-300:], dt
        return 'harness-error(%d)' % p.returncode, (p.stdout + p.stderr)[-600:], dt
    finally:
        shutil.rmtree(d, ignore_errors=True)
        shutil.rmtree(outd, ignore_errors=True)


def mutants(seed, only=None):
    res = []
    for name, prop, patch in mutant_list():
        if only and only not in name:
            continue
        st, info, dt = run_mutant(name, prop, patch, seed, os.environ.get('VERIF_MUTANT_TIER', 'quick'))
        print('[selftest] mutant %-45s %s %-8s %5.1fs  %s' % (name, prop, st, dt, info.replace('\n', ' ')[:200]), flush=True)
        res.append((name, st))
    missed = [n for n, s in res if s != 'caught']
    print('[selftest] mutants: %d/%d caught%s' % (len(res) - len(missed), len(res), (' ; not caught: ' + ', '.join(missed)) if missed else ''), flush=True)
    return 1 if missed else 0


def main(what, seed, n=None):
    if what == 'determinism':
        return determinism(seed, n, inner=bool(os.environ.get('VERIF_SELFTEST_INNER')))
    if what == 'mutants':
        return mutants(seed)
    if what.startswith('mutant:'):
        return mutants(seed, only=what[7:])
    print('unknown selftest %r' % what)
    return 2
