"""Evidence files, known-findings file, violation lines."""
import json
import os
import time

HERE = os.path.dirname(os.path.dirname(os.path.abspath(__file__)))
KNOWN = os.path.join(HERE, 'known_findings.json')


def out_dir():
    """Evidence and replay files go under /verif unless VERIF_OUT redirects them (used by the mutant
    self-test, whose runs against scratch copies must not overwrite the real evidence)."""
    return os.environ.get('VERIF_OUT') or HERE


def load_known(prop):
    try:
        with open(KNOWN) as f:
            data = json.load(f)
    except FileNotFoundError:
        return []
    return [x for x in data.get('findings', []) if x.get('property') == prop and x.get('status') == 'known']


def write_evidence(prop, tier, seed, coverage, assumptions, wall_s, violations, level='exploration'):
    d = os.path.join(out_dir(), 'evidence')
    os.makedirs(d, exist_ok=True)
    ev = {'property_id': prop, 'tier': tier, 'seed': int(seed), 'level': level, 'coverage': coverage,
          'assumptions': assumptions, 'wall_s': round(wall_s, 2), 'violations': int(violations)}
    tmp = os.path.join(d, prop + '.json.tmp')
    with open(tmp, 'w') as f:
        json.dump(ev, f, indent=1, ensure_ascii=False)
    os.replace(tmp, os.path.join(d, prop + '.json'))


def write_replay(prop, name, data):
    d = os.path.join(out_dir(), 'replays')
    os.makedirs(d, exist_ok=True)
    p = os.path.join(d, '%s-%s.json' % (prop, name))
    with open(p, 'w') as f:
        json.dump(data, f, indent=1, ensure_ascii=False)
    return p


def violation_line(prop, path):
    print('VIOLATION property=%s replay=%s' % (prop, path), flush=True)
