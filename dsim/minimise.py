"""Delta-debugging minimisation of a failing run spec (DESIGN §3.7).

A candidate is kept only when the same violation signature recurs.  Candidates of one ddmin level
are evaluated in parallel on zygotes that all have the failing run's hash seed."""
import copy
import time

from . import ops as O
from .child import dg


def signature_of(m):
    return [m['inv'], O.op_key(m['op']), dg(m['observed'])]


def has_signature(res, sig, loose=False):
    """Same violation = same invariant, same op, same deviating observable.  `loose` drops the last condition: a result
    that embeds a memory address deviates differently in every process; what reproduces is that this op deviates."""
    if 'harness_error' in res:
        return False
    for m in res.get('mismatches', []):
        s2 = signature_of(m)
        if s2 == sig or (loose and s2[:2] == sig[:2]):
            return True
    return False


def to_replay_spec(spec, res):
    """Turn a generative spec + its recorded decisions into an explicit schedule (no PRNG)."""
    r = copy.deepcopy(spec)
    r['strategy'] = {'kind': 'replay', 'switches': res['switches'], 'finishes': res['finishes'], 'first': res['first']}
    r['faults'] = [[f[0], f[1], f[2], f[3]] for f in res['fired']]
    if res.get('instr_fn'):
        r['instr_fn'] = res['instr_fn']
    r.pop('focus_faults', None)      # they fired (or not) and are now ordinary entries of 'faults'
    r['gcs_at'] = res.get('gcs_at') or []
    r['record'] = True
    return r


class Budget:
    """Bounded by a number of candidate executions and by wall-clock time."""

    def __init__(self, n, wall_s=None):
        self._left = n
        self.used = 0
        self.deadline = None if wall_s is None else time.time() + wall_s

    @property
    def left(self):
        if self.deadline is not None and time.time() > self.deadline:
            return 0
        return self._left

    @left.setter
    def left(self, v):
        self._left = v


def _ddmin(items, build, test_many, budget):
    """Generic ddmin over a list; build(items)->spec; test_many(specs)->[bool]."""
    n = 2
    while len(items) >= 1 and budget.left > 0:
        chunk = max(1, len(items) // n)
        cands = []
        for i in range(0, len(items), chunk):
            cands.append(items[:i] + items[i + chunk:])
        cands = cands[:budget.left]
        budget.left -= len(cands)
        budget.used += len(cands)
        oks = test_many([build(c) for c in cands])
        hit = None
        for c, ok in zip(cands, oks):
            if ok:
                hit = c
                break
        if hit is not None:
            items = hit
            n = max(n - 1, 2)
            if not items:
                break
        else:
            if chunk == 1:
                break
            n = min(len(items), n * 2)
    return items


def _drop_op(spec, c, j):
    s = copy.deepcopy(spec)
    del s['clients'][c][j]
    st = s['strategy']
    sw = []
    for x in st.get('switches', []):
        if x[0] == c:
            if x[1] == j:
                continue
            if x[1] > j:
                x = [x[0], x[1] - 1, x[2], x[3]]
        sw.append(x)
    st['switches'] = sw
    for key in ('faults', 'gcs_at'):
        out = []
        for x in s.get(key, []):
            if x[0] == c:
                if x[1] == j:
                    continue
                if x[1] > j:
                    x = [x[0], x[1] - 1] + list(x[2:])
            out.append(x)
        s[key] = out
    return s


def minimise(spec, sig, test_many, max_execs=300, wall_s=None):
    """spec must be an explicit replay spec that reproduces `sig`.  Returns (spec, executions used)."""
    b = Budget(max_execs, wall_s)
    cur = copy.deepcopy(spec)

    def try_one(cand):
        if b.left <= 0:
            return False
        b.left -= 1
        b.used += 1
        return test_many([cand])[0]

    # 0. cheapest shapes first: no switches at all (pure history), then coarser granularity
    cand = copy.deepcopy(cur)
    cand['strategy']['switches'] = []
    if try_one(cand):
        cur = cand
    # 0b. the prehistory of an aged process: all of it, then ddmin
    if cur.get('pre'):
        cand = copy.deepcopy(cur)
        cand['pre'] = []
        if try_one(cand):
            cur = cand
        else:
            def build_pre(items):
                s_ = copy.deepcopy(cur)
                s_['pre'] = items
                return s_
            cur['pre'] = _ddmin(list(cur['pre']), build_pre, test_many, b)
    # 1. whole clients (ids stay stable: a dropped client keeps an empty op list)
    for c in range(len(cur['clients'])):
        if not cur['clients'][c]:
            continue
        cand = copy.deepcopy(cur)
        n = len(cand['clients'][c])
        for j in range(n - 1, -1, -1):
            cand = _drop_op(cand, c, j)
        if try_one(cand):
            cur = cand
    # 2. ops within clients (from the back, so that indices of earlier ops stay valid)
    changed = True
    while changed and b.left > 0:
        changed = False
        for c in range(len(cur['clients'])):
            j = len(cur['clients'][c]) - 1
            while j >= 0 and b.left > 0:
                cand = _drop_op(cur, c, j)
                if try_one(cand):
                    cur = cand
                    changed = True
                j -= 1
    # 3. faults and gc points
    for key in ('faults', 'gcs_at'):
        i = len(cur.get(key, [])) - 1
        while i >= 0 and b.left > 0:
            cand = copy.deepcopy(cur)
            del cand[key][i]
            if try_one(cand):
                cur = cand
            i -= 1
    # 4. switches (ddmin)
    sw = cur['strategy'].get('switches', [])
    if sw:
        def build(items):
            s = copy.deepcopy(cur)
            s['strategy']['switches'] = items
            return s
        sw = _ddmin(list(sw), build, test_many, b)
        cur['strategy']['switches'] = sw
    # 5. sharing knobs towards the least shared setting, scope towards the smallest
    for key, val in (('meta_share', False), ('rnd_mode', 'op'), ('cat_mode', 'op'), ('scope', ['repo'])):
        if cur.get(key) != val and b.left > 0:
            cand = copy.deepcopy(cur)
            cand[key] = val
            if try_one(cand):
                cur = cand
    return cur, b.used
