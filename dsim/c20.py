"""C20 — calls are isolated.  S1 interleavings, S2 call histories, S3 process configuration / cold
start (DESIGN §4), all judged against the isolated reference table (§3.6)."""
import collections
import concurrent.futures
import copy
import json
import os
import random
import subprocess
import sys
import time

from . import gen, refs, minimise as M, report
from . import ops as O
from .child import dg, corpus
from .pool import Pool, HarnessError, HERE, PY

PROP = 'C20'
NAMED_PROBES = ['get_predictor', 'get_reserved_words', 'parse', 'error', 'tokenize', 'query_traversal', 'get_string',
                'plan_select', '__init__']

ASSUMPTIONS = [
    'isolation is shown for the frozen op corpus (dsim/corpus/corpus.json), not for all inputs',
    'pre-emption points are LINE (or INSTRUCTION) events of code under mindsdb_sql/ and sly/ (optionally sqlalchemy/ and copy.py); '
    'switches inside C code or other modules are not explored; every explored schedule is a feasible CPython (GIL) schedule',
    'the oracle is the current tree\'s own answer for the same op in an otherwise idle hash-seed-0 process: results being *right* is not checked',
    'memory addresses inside messages of third-party (SQLAlchemy) exceptions are masked before comparison; the library\'s own results and messages are compared as they are',
    'the op hit by an injected abort / MemoryError / RecursionError is not judged; every other op is',
    'a tree that the caller shares between renders (tree histories, twin scenarios) must render the same as a fresh tree; a tree handed to the planner is the planner\'s to consume and its reuse is not judged',
    'the statements that age a process before a capacity-directed run (fresh names / constants) are not judged; prehistory ops of aged-process runs are',
    'no network, disk or clock faults: the library has none of these (DESIGN §1)',
    'free-threaded (no-GIL) CPython builds are out of scope',
]
COMPONENTS = {
    'real': ['mindsdb_sql parser / planner / renderer (from the working tree)', 'sly', 'SQLAlchemy 2.0', 'CPython threads (baton-scheduled)'],
    'stub': ['callers (simulated clients driven from seeded op lists)'],
    'absent': ['network', 'disk', 'clocks/timers', 'integrations and models (no plan is executed)'],
}


class Stats:
    def __init__(self):
        self.runs = collections.Counter()
        self.steps = 0
        self.switches = 0
        self.fired = collections.Counter()
        self.configured = collections.Counter()
        self.gc = 0
        self.strategies = collections.Counter()
        self.gran = collections.Counter()
        self.scope = collections.Counter()
        self.cat_mode = collections.Counter()
        self.rnd_mode = collections.Counter()
        self.meta_share = 0
        self.hashseeds = collections.Counter()
        self.sigs = set()
        self.nontrivial = 0
        self.overlap = collections.Counter()
        self.kind_pairs = set()
        self.families = collections.Counter()
        self.swallowed = 0
        self.samples = []
        self.ops_run = 0
        self.distinct_ops = set()
        self.child_wall = 0.0
        self.slow = []
        self.famhist_runs = 0
        self.treehist_runs = 0
        self.long_runs = 0
        self.long_ops = 0
        self.long_pairs = 0
        self.novel_state = set()
        self.state_paths = set()
        self.write_functions = set()
        self.directed_runs = 0
        self.sweep_runs = 0
        self.sweep_functions = set()
        self.lock_yields = 0
        self.aged_runs = 0
        self.abort_ops = 0
        self.abort_points_planned = 0
        self.abort_runs = 0
        self.abort_sites = set()
        self.capacity_runs = 0
        self.capacity_found = 0
        self.aged_ops = 0

    def add(self, spec, res):
        sub = spec['sub']
        self.runs[sub] += 1
        self.steps += res['steps']
        self.switches += res['nswitch']
        for f in res['fired']:
            self.fired[f[3]] += 1
        for f in spec.get('faults', []):
            self.configured[f[3]] += 1
        self.gc += res['gc_fired']
        self.strategies[spec['strategy']['kind']] += 1
        self.gran[spec['gran']] += 1
        self.scope['+'.join(spec['scope'])] += 1
        self.cat_mode[spec['cat_mode']] += 1
        self.rnd_mode[spec['rnd_mode']] += 1
        self.meta_share += 1 if spec.get('meta_share') else 0
        self.hashseeds[spec['hashseed']] += 1
        if res['nswitch'] or res['fired'] or res['gc_fired']:
            self.nontrivial += 1
            self.sigs.add(res['sig'])
        for k, v in res['overlap'].items():
            self.overlap[k] += v
        kinds = [sorted({op['k'] for op in cl}) for cl in spec['clients']]
        for i in range(len(kinds)):
            for j in range(i + 1, len(kinds)):
                for a in kinds[i]:
                    for b in kinds[j]:
                        self.kind_pairs.add(tuple(sorted((a, b))))
        for f in spec.get('families', []):
            self.families[f] += 1
        self.swallowed += res.get('swallowed', 0)
        for cl in spec['clients']:
            self.ops_run += len(cl)
            for op in cl:
                self.distinct_ops.add(O.op_key(op))
        if spec.get('famhist'):
            self.famhist_runs += 1
        if spec.get('treehist'):
            self.treehist_runs += 1
        if spec.get('long'):
            n = len(spec['clients'][0])
            self.long_runs += 1
            self.long_ops += n
            self.long_pairs += n * (n - 1) // 2
        if spec.get('pre'):
            self.aged_runs += 1
            self.aged_ops += len(spec['pre'])
        self.child_wall += res.get('wall', 0)
        if res.get('wall', 0) > 5:
            self.slow.append((round(res['wall'], 1), spec['sub'], spec.get('gran'), spec['strategy'].get('kind'), len(spec['clients']),
                              sum(len(cl) for cl in spec['clients']), res['steps'], spec.get('families')))
        self.lock_yields += res.get('lock_yields', 0)
        if len(self.samples) < 3 and sub == 'S1' and res['nswitch'] and (len(self.samples) == 0 or res['fired']):
            self.samples.append(sample_of(spec, res))


def sample_of(spec, res):
    return {
        'sub': spec['sub'], 'seed': spec['seed'], 'hashseed': spec['hashseed'], 'gran': spec['gran'], 'scope': spec['scope'],
        'cat_mode': spec['cat_mode'], 'rnd_mode': spec['rnd_mode'], 'meta_share': spec.get('meta_share'),
        'strategy': spec['strategy'], 'families': spec.get('families'),
        'clients': [[{k: v for k, v in op.items()} for op in cl] for cl in spec['clients']],
        'faults_configured': spec.get('faults'), 'faults_fired': res['fired'], 'gc_fired': res['gc_fired'],
        'steps': res['steps'], 'switches': res['nswitch'], 'first_switches[client,op,event,next]': (res.get('switches') or [])[:12],
        'event_log_digest': res['digest'],
    }


# ---------------------------------------------------------------------------------------------
def run_s3(hashseeds, ops, ref, repo, seed, workers=16):
    """Fresh interpreters, cold imports, seeded permutation per hash seed."""
    exp_all = {O.op_key(op): ref[O.op_key(op)]['dg'] for op in ops}

    def one(h):
        rng = random.Random('C20/S3/%d/%d' % (seed, h))
        perm = list(ops)
        rng.shuffle(perm)
        return h, perm, s3_exec(h, perm, [exp_all[O.op_key(op)] for op in perm], repo)

    out = []
    with concurrent.futures.ThreadPoolExecutor(max_workers=workers) as ex:
        for h, perm, res in ex.map(one, hashseeds):
            out.append((h, perm, res))
    return out


def s3_exec(h, ops, expected, repo, timeout=600):
    env = dict(os.environ)
    env['PYTHONHASHSEED'] = str(h)
    env['PYTHONDONTWRITEBYTECODE'] = '1'
    env['PYTHONPATH'] = HERE
    if repo:
        env['VERIF_REPO'] = repo
    try:
        p = subprocess.run([PY, '-X', 'faulthandler', '-m', 'dsim.s3worker'], input=json.dumps({'ops': ops, 'expected': expected}),
                           capture_output=True, text=True, env=env, cwd=HERE, timeout=timeout)
    except subprocess.TimeoutExpired:
        raise HarnessError('S3 interpreter (hash seed %s) timed out' % h)
    if p.returncode != 0:
        raise HarnessError('S3 interpreter (hash seed %s) failed: %s' % (h, p.stderr[-2000:]))
    return json.loads(p.stdout)['out']


def s3_minimise(h, perm, idx, expected_dg, repo, budget=12):
    """Bisect the prefix: smallest [earlier ops] + affected op that still deviates."""
    op = perm[idx]
    want = expected_dg

    def deviates(prefix):
        out = s3_exec(h, prefix + [op], [None] * len(prefix) + [want], repo)
        return out[-1]['dg'] != want, out[-1].get('obs')

    bad, obs = deviates([])
    if bad:
        return [], obs
    prefix = perm[:idx]
    used = 1
    # binary reduction keeping deviation
    while len(prefix) > 1 and used < budget:
        half = len(prefix) // 2
        a, b = prefix[:half], prefix[half:]
        used += 1
        bad, o = deviates(b)
        if bad:
            prefix, obs = b, o
            continue
        used += 1
        bad, o = deviates(a)
        if bad:
            prefix, obs = a, o
            continue
        break
    bad, o = deviates(prefix)
    return prefix, (o if bad else obs)


# ---------------------------------------------------------------------------------------------
class Found:
    """Collects violations; distinct by signature."""

    def __init__(self, limit=None):
        # (VERIF_MAX_VIOLATIONS=1: stop exploring at the first deviation; used by the sensitivity self-test, where only the verdict counts)
        limit = limit or int(os.environ.get('VERIF_MAX_VIOLATIONS', '3') or 3)
        self.items = []
        self.sigs = set()
        self.limit = limit
        self.total = 0

    def add(self, spec, res):
        for m in res['mismatches']:
            self.total += 1
            sig = tuple(M.signature_of(m))
            if sig in self.sigs:
                continue
            self.sigs.add(sig)
            if len(self.items) < self.limit:
                self.items.append((spec, res, m))
            break

    def full(self):
        return len(self.items) >= self.limit


def finalize_violation(spec, res, m, ref, repo, max_execs, wall_s=None):
    """Explicit schedule -> verify -> minimise -> verify in a new zygote -> replay file."""
    sig = M.signature_of(m)
    h = spec['hashseed']
    rspec = M.to_replay_spec(spec, res)
    loose = [False]
    with Pool([h] * 16, repo) as mp:
        def test_many(cands):
            out = [None] * len(cands)
            jobs = []
            for i, c in enumerate(cands):
                c = dict(c)
                c['_i'] = i
                jobs.append((None, c))
            for s, r in mp.run_jobs(jobs):
                out[s['_i']] = M.has_signature(r, sig, loose[0])
            return out
        if not test_many([rspec])[0]:
            # the op may deviate differently in every process (an address in the result): then "same violation" can only
            # mean "this op deviates again"
            loose[0] = True
            if not test_many([rspec])[0]:
                return None, 'explicit schedule did not reproduce the violation'
        mspec, used = M.minimise(rspec, sig, test_many, max_execs, wall_s)
    # final confirmation in a brand-new zygote process
    with Pool([h], repo) as fp:
        r = fp.z[0].call(mspec)
    if not M.has_signature(r, sig, loose[0]):
        return None, 'minimised schedule did not reproduce in a new process'
    mm = [x for x in r['mismatches'] if M.signature_of(x) == sig or (loose[0] and M.signature_of(x)[:2] == sig[:2])][0]
    k = O.op_key(mm['op'])
    data = {
        'property': PROP, 'kind': 'sim', 'seed': spec['seed'], 'hashseed': h, 'signature': sig,
        'invariant': mm['inv'], 'classification': mm.get('class'), 'op': mm['op'], 'observable_differs_between_processes': loose[0],
        'expected': ref.get(k, {}).get('obs'), 'observed': mm['observed'],
        'minimisation_executions': used, 'spec': {kk: v for kk, v in mspec.items() if kk not in ('_i',)},
    }
    return data, None


def abort_points(tier, seed, stats, found, ref, probes, pool, t_end):
    """Systematic abort points (the analogue of crash-point enumeration in crash-consistency testing).  Random fault placement
    draws an event index, so a line inside a hot loop is hit a thousand times more often than a line of a recovery path that
    runs once.  Here, for a seed-rotated sample of representative ops (one per stratum: kind x dialect x renderer / catalog x
    accepted / rejected), a forked child first records at which event every distinct line of repo code is executed for the first
    (and last) time; then one single-client history per such point: the op is aborted (or hits MemoryError) exactly there, and
    the SAME client thread goes on with the same op again, an accepted and a rejected op of the same stratum kind, and the op
    once more.  Each must equal its reference (I1), and the probes afterwards (I2)."""
    c = corpus()
    st = gen.strata(c, ref)
    names = sorted(st)
    rng = random.Random('C20/ABORTPTS/%d' % seed)
    rng.shuffle(names)
    k_ops, cap = (10, 220) if tier == 'quick' else (120, 100000)
    picked = []
    for name in names:
        lst = [op for op in st[name] if op['k'] != 'flow' and (gen._HINTS.get(O.op_key(op)) or ['ok', 1 << 30])[1] <= 15000]
        if lst:
            picked.append((name, lst[rng.randrange(len(lst))]))
        if len(picked) >= k_ops:
            break
    # ... and as many ops taken from the collision families: the op is aborted, and the same thread goes on with its family
    # SIBLINGS (inputs chosen because they touch the same thing differently) instead of arbitrary ops of the same kind
    fam_names = sorted(f for f in c['families'] if not f.startswith(('deep_', 'wide_', 'built_chains')))
    rng.shuffle(fam_names)
    sib = {}
    for f in fam_names:
        lst = [op for op in c['families'][f] if op['k'] != 'flow' and (gen._HINTS.get(O.op_key(op)) or ['ok', 1 << 30])[1] <= 15000]
        if len(lst) >= 3:
            op = lst[rng.randrange(len(lst))]
            sib[len(picked)] = [o for o in lst if o is not op]
            picked.append(('family:' + f, op))
        if len(picked) >= 2 * k_ops:
            break
    profs = {}

    def on_prof(spec, res):
        if 'harness_error' not in res:
            profs[spec['_b']] = res

    pool.run_jobs([(i % len(gen.HASHSEEDS), {'cmd': 'profile', 'op': op, '_b': i, 'wall_limit_s': 60}) for i, (_, op) in enumerate(picked)],
                  on_result=on_prof, deadline=t_end)
    specs = []
    for i, (name, op) in enumerate(picked):
        pr = profs.get(i)
        if not pr:
            continue
        pts = sorted(set(pr['firsts']) | set(pr['lasts']))
        if len(pts) > cap:
            pts = sorted(rng.sample(pts, cap))
        kind_prefix = (name.split('/')[0] + '/' + name.split('/')[1] + '/') if '/' in name else '\0'
        same_kind = [n_ for n_ in names if n_.startswith(kind_prefix)]
        light_ = lambda ops_: [o for o in ops_ if (gen._HINTS.get(O.op_key(o)) or ['ok', 1 << 30])[1] <= 15000]  # noqa
        acc = [o for n_ in same_kind if n_.endswith('/ok') for o in light_(st[n_])][:40]
        rej = [o for n_ in same_kind if n_.endswith('/err') for o in light_(st[n_])][:40]
        if i in sib and len(pts) > cap // 2:
            pts = sorted(rng.sample(pts, cap // 2))
        for j, e in enumerate(pts):
            later = [op]
            if i in sib:
                later += [sib[i][(j * 7 + i) % len(sib[i])], sib[i][(j * 5 + 3 * i + 1) % len(sib[i])]]
            else:
                if acc:
                    later.append(acc[(j * 7 + i) % len(acc)])
                if rej:
                    later.append(rej[(j * 5 + i) % len(rej)])
            later.append(op)
            specs.append({
                'cmd': 'sim', 'property': 'C20', 'sub': 'S2', 'seed': seed * 1_000_000 + 600_000 + len(specs), 'hashseed': gen.hashseed_for(len(specs)),
                'families': ['abortpts:' + name], 'clients': [[op] + later], 'gran': 'line', 'scope': ['repo'], 'cat_mode': 'shared', 'rnd_mode': 'shared',
                'meta_share': True, 'strategy': {'kind': 'none'}, 'sched_seed': 0, 'faults': [[0, 0, int(e), 'abort' if (j + i) % 10 < 7 else 'mem']], 'gcs_at': [],
                'lazy_events': True, 'long': True, 'abortpts': True,
            })
    stats.abort_ops = len(profs)
    stats.abort_points_planned = len(specs)
    if not specs:
        return
    rng.shuffle(specs)
    ref.ensure([op for sp in specs for op in sp['clients'][0]], count=False)
    check_twice(ref, pool, found)
    harness = []

    def on(spec, res):
        if 'harness_error' in res:
            harness.append((spec, res['harness_error']))
            return False
        stats.add(spec, res)
        stats.abort_runs += 1
        for f in res['fired']:
            stats.abort_sites.add(str(f[4]) if len(f) > 4 else '')
        if res['mismatches']:
            found.add(spec, res)
            if found.full():
                return False
        return None

    pool.run_jobs([(sp['hashseed'], gen.attach(sp, ref, probes)) for sp in specs], on_result=on, deadline=t_end)
    if harness:
        raise HarnessError('abort points seed %s: %s' % (harness[0][0]['seed'], harness[0][1]))
    if os.environ.get('VERIF_DEBUG'):
        print('[C20] abort points: %d ops profiled, %d points planned, %d runs, %d distinct sites hit' % (
            len(profs), len(specs), stats.abort_runs, len(stats.abort_sites)), flush=True)


def explore(tier, seed, repo, budget_s, stats, found, ref, probes, pool, t_end, n_s1, n_s2, instr_frac, sa_frac, chunk=320):
    c = corpus()
    harness = []

    def on(spec, res):
        if 'harness_error' in res:
            harness.append((spec, res['harness_error']))
            return False
        stats.add(spec, res)
        if res['mismatches']:
            found.add(spec, res)
            if found.full():
                return False
        return None

    base = seed * 1_000_000
    # one interleaved job stream (two S1 runs, then one S2 history, ...) under one deadline, so that a
    # long-tailed run of one kind cannot starve the other kind

    dbg = bool(os.environ.get('VERIF_DEBUG'))

    def flush(specs):
        t1 = time.time()
        ref.ensure([op for sp in specs if not sp.get('long') for cl in sp['clients'] for op in cl])
        ref.ensure([op for sp in specs if sp.get('long') for cl in sp['clients'] for op in cl] + [op for sp in specs for op in sp.get('pre') or []], count=False)
        check_twice(ref, pool, found)
        t2 = time.time()
        jobs = [(sp['hashseed'], gen.attach(sp, ref, probes)) for sp in specs]
        t3 = time.time()
        # the first chunk of the random stream runs whatever the clock says (on a loaded machine start-up and references can eat
        # the phase; a check without a single multi-threaded run would be no check)
        pool.run_jobs(jobs, on_result=on, deadline=max(t_end, t3 + 12.0) if first_chunk[0] else t_end)
        if dbg:
            print('[C20] chunk of %d specs: refs %.1fs, attach %.1fs, run %.1fs (deadline in %+.1fs)' % (
                len(specs), t2 - t1, t3 - t2, time.time() - t3, t_end - time.time()), flush=True)

    # phase A: one history per family (all its ops, shuffled, twice, in one process)
    fams = sorted(c['families'])
    fh = [gen.gen_family_history(base + 800_000 + i, c, f) for i, f in enumerate(fams) if len(c['families'][f]) >= 2]
    # ... and the tree histories: a few statements, each rendered by every dialect name on one shared tree object
    fh += gen.gen_tree_histories(base + 850_000, c, tier == 'quick')
    ref.ensure([op for sp in fh for op in sp['clients'][0]], count=False)
    check_twice(ref, pool, found)
    t1 = time.time()
    pool.run_jobs([(sp['hashseed'], gen.attach(sp, ref, probes)) for sp in fh], on_result=on, deadline=t_end)
    if os.environ.get('VERIF_DEBUG'):
        print('[C20] family histories: %d run in %.1fs' % (len(fh), time.time() - t1), flush=True)
    if harness or found.full():
        if harness:
            raise HarnessError('%s seed %s: %s' % (harness[0][0]['sub'], harness[0][0]['seed'], harness[0][1]))
        return
    specs = []
    i1 = i2 = 0
    first_chunk = [True]
    while i1 < n_s1 or i2 < n_s2:
        for _ in range(2):
            if i1 < n_s1:
                specs.append(gen.gen_s1(base + i1, c, None, instr_frac, sa_frac))
                i1 += 1
        if i2 < n_s2:
            # short, fully instrumented histories and long ones (pair coverage) alternate
            specs.append(gen.gen_s2(base + i2, c, None) if i2 % 2 == 0 else gen.gen_s2_long(base + i2, c, None))
            i2 += 1
        if len(specs) >= chunk:
            flush(specs)
            specs = []
            if harness or found.full() or time.time() > t_end:
                break
            if first_chunk[0]:
                first_chunk[0] = False
                # phase A2: systematic abort points (a sixth of what is left of the phase, 5 s at least)
                abort_points(tier, seed, stats, found, ref, probes, pool, time.time() + max(5.0, (t_end - time.time()) * 0.2))
                if found.full():
                    break
    if specs and not harness and not found.full():
        flush(specs)
    if harness:
        spec, err = harness[0]
        raise HarnessError('%s seed %s: %s' % (spec['sub'], spec['seed'], err))


def check_twice(ref, pool, found):
    """Ops whose immediate repetition in one (otherwise idle) process gave a different observable: re-run [op, op]
    as an ordinary S2 history, which decides between a history dependence of the library and non-transparent
    instrumentation."""
    tw, ref.twice = ref.twice[:5], []
    for op in tw:
        spec = {'cmd': 'sim', 'property': PROP, 'sub': 'S2', 'seed': -1, 'hashseed': 0, 'families': [], 'clients': [[op, op]],
                'gran': 'line', 'scope': ['repo'], 'cat_mode': 'op', 'rnd_mode': 'op', 'meta_share': False,
                'strategy': {'kind': 'none'}, 'sched_seed': 0, 'faults': [], 'gcs_at': []}
        spec = gen.attach(spec, ref, [])
        res = pool.z[0].call(spec)
        if 'harness_error' in res:
            raise HarnessError(res['harness_error'])
        if res['mismatches']:
            found.add(spec, res)
        else:
            raise HarnessError('event counting changed the observable of %r but a plain repetition does not' % (op,))


def focus_sweep(seed, stats, found, ref, probes, pool, t_end, per_class, reps, wf_runs=8, max_fns=14):
    """Systematic part of the search (thorough tier): for every family class, for a few of its families, for
    EVERY repo function that at least two clients of the base scenario execute (grammar actions and lexer rules
    excepted), runs with dense pre-emption inside that one function.  Random schedules find races with wide
    windows; this finds the ones whose window is two adjacent lines of one function."""
    import copy as _copy
    c = corpus()
    classes = gen.family_classes(c)
    rng = random.Random('C20/SWEEP/%d' % seed)
    bases = []
    i = 0
    for cl in sorted(classes):
        if cl.startswith('deep_'):
            continue          # millions of events per op: left to the random stream of the thorough tier
        fams = list(classes[cl])
        rng.shuffle(fams)
        for fam in fams[:per_class]:
            if len(c['families'][fam]) < 2:
                continue
            bases.append(gen.gen_sweep_base(seed * 1_000_000 + 900_000 + i, c, ref, fam))
            i += 1
        if len(fams) >= 2:
            # two members of the class at the same time (same code, two dialects / catalogs)
            bases.append(gen.gen_sweep_base(seed * 1_000_000 + 900_000 + i, c, ref, fams[-1], fams[-2]))
            i += 1
    ref.ensure([op for b_ in bases for cl in b_['clients'] for op in cl])
    check_twice(ref, pool, found)
    lists = {}

    wfs = {}

    def on_list(spec, res):
        lists[spec['_b']] = res.get('fns', []) if 'harness_error' not in res else []
        wf = res.get('wf') if 'harness_error' not in res else None
        if wf and wf.get('fns'):
            wfs[spec['_b']] = wf

    jobs = []
    for bi, b in enumerate(bases):
        q = dict(b)
        q['cmd'] = 'focus_list'
        q['want_wf'] = True
        q['wall_limit_s'] = 120
        q['_b'] = bi
        jobs.append((b['hashseed'], q))
    pool.run_jobs(jobs, on_result=on_list, deadline=time.time() + max(4.0, (t_end - time.time()) * 0.3))
    harness = []
    nfun = [0]

    def on(spec, res):
        if 'harness_error' in res:
            harness.append((spec, res['harness_error']))
            return False
        stats.add(spec, res)
        stats.sweep_runs += 1
        if spec.get('directed'):
            stats.directed_runs += 1
        if res.get('pre_fill'):
            stats.capacity_runs += 1
            if any(x is not None for x in (res['pre_fill'].get('capacity') or [])):
                stats.capacity_found += 1
        if res.get('focus'):
            stats.sweep_functions.add(tuple(res['focus'][:2]))
        if res['mismatches']:
            found.add(spec, res)
            if found.full():
                return False
        return None

    jobs = []
    for bi, b in enumerate(bases):
        fns = [f for f in lists.get(bi, []) if not (f[0].endswith(('parser.py', 'lexer.py')) and not f[0].startswith('sly'))]
        if len(fns) > max_fns:
            # a seed-dependent sample, so that different seeds cover different functions; the functions seen writing state
            # that outlives a call are always in it
            rng2 = random.Random('C20/SWEEPFN/%d/%d' % (seed, bi))
            wfk = {tuple(f[:2]) for f in (wfs.get(bi) or {}).get('fns', [])}
            first = [f for f in fns if tuple(f[:2]) in wfk][:max_fns // 2]
            rest = [f for f in fns if f not in first]
            fns = sorted(first + rng2.sample(rest, max_fns - len(first)))
        for f in fns:
            for r in range(reps):
                spec = _copy.deepcopy(b)
                # rep 0: line-level alternation; rep 1, 2: bytecode-level pre-emption inside the function (races inside one line)
                spec['strategy'] = {'kind': 'focus', 'fn': f, 'p': (0.5, 0.5, 0.25, 1.0)[r % 4], 'instr': r % 4 in (1, 2)}
                spec['sched_seed'] = (b['sched_seed'] + r * 7919 + hash_str(f[1])) & 0x3FFFFFFF
                if r == reps - 1 and reps >= 3 and (reps > 3 or hash_str(f[1]) % 3 == 0):
                    # last rep: a call is aborted (or hits MemoryError) INSIDE the function, at its n-th line there, while the
                    # other clients keep using it: exception safety of whatever the function updates
                    h = hash_str(f[1] + f[0])
                    spec['strategy'] = {'kind': 'focus', 'fn': f, 'p': 0.3, 'instr': False}
                    spec['focus_faults'] = [[0, 1 + h % 7, 'abort' if h % 3 else 'mem'], [1, 2 + (h >> 4) % 11, 'abort']]
                spec = gen.attach(spec, ref, probes)
                jobs.append((spec['hashseed'], spec))
    # state-directed runs: the functions that write state which outlives a call (found by fingerprinting module / class
    # level data and the run's shared renderer / catalog objects) get dense pre-emption *together*, so that the order of
    # conflicting writes and reads of two clients is shuffled; plus runs with aborts inside them
    directed = 0
    deferred = []      # specs on re-sampled scenarios: their references are computed in one go below
    for bi, b in enumerate(bases):
        wf = wfs.get(bi)
        if not wf:
            continue
        for path_ in wf.get('paths', []):
            stats.state_paths.add(path_)
        for f in wf['fns']:
            stats.write_functions.add(tuple(f[:2]))
        # state that the pinned tree is known to keep (the lazily extended reserved-word set, SQLAlchemy's memo attributes on a
        # shared renderer's dialect object) gets the basic effort; anything else is NEW shared state: many more runs, on
        # re-sampled scenarios of the same family, with pre-emption only in the functions that write the new state.
        # (This list steers effort only; it is not an oracle and nothing is reported because of it.)
        novel = [f for f in wf.get('by_fn', []) if any(not _known_state(p_) for p_ in f[3])]
        n_runs, fns = (wf_runs * 12, [f[:3] for f in novel]) if novel else (wf_runs, wf['fns'])
        if novel:
            stats.novel_state.update(p_ for f in novel for p_ in f[3] if not _known_state(p_))
        for r in range(n_runs):
            bb = b if r < wf_runs else gen.gen_sweep_base(b['seed'] + 7 * (1 + r // 4), c, ref, *b['families'][:2])
            spec = _copy.deepcopy(bb)
            spec['strategy'] = {'kind': 'focus', 'fns': fns, 'p': (0.05, 0.15, 0.4, 0.1)[r % 4]}
            if novel and r % 4 == 1:
                # bytecode-level pre-emption inside one of the functions that write the new state (read-modify-write on one line)
                spec['instr_fn'] = fns[(r // 4) % len(fns)]
            spec['sched_seed'] = (b['sched_seed'] + 104729 * (r + 1)) & 0x3FFFFFFF
            spec['directed'] = True
            if novel:
                spec['novel'] = True
            if r % 4 == 3:
                spec['focus_faults'] = [[r % len(b['clients']), 1 + (r * 7) % 13, 'abort']]
            deferred.append(spec)
            directed += 1
    # state -> inputs: for some kinds of process-wide state only particular inputs can show a difference.  The interpreter's
    # recursion limit matters to deeply nested statements only, so functions seen changing it get their directed runs on
    # scenarios of the caller-built deep condition chains (plus whatever scenario they were seen in, above).
    for prefix, fam_names in STATE_INPUTS.items():
        fset = {}
        for wf in wfs.values():
            for f in wf.get('by_fn', []):
                if any(p_.startswith(prefix) and not _known_state(p_) for p_ in f[3]):
                    fset[tuple(f[:3])] = list(f[:3])
        fam_names = [f for f in fam_names if f in c['families']]
        if not fset or not fam_names:
            continue
        fns = sorted(fset.values())
        for r in range(wf_runs * 12):
            bb = gen.gen_sweep_base(seed * 1_000_000 + 950_000 + r // 2, c, ref, fam_names[r % len(fam_names)])
            spec = _copy.deepcopy(bb)
            spec['strategy'] = {'kind': 'focus', 'fns': fns, 'p': (0.15, 0.4, 0.1, 0.3)[r % 4]}
            spec['sched_seed'] = (bb['sched_seed'] + 15485863 * (r + 1)) & 0x3FFFFFFF
            spec['directed'] = True
            spec['novel'] = True
            spec['state_inputs'] = prefix
            deferred.append(spec)
            directed += 1
    # state -> capacity: new module / class level state may be a table with a capacity (an LRU, a memo that is cleared when
    # full).  Such state behaves differently only at the edge of its capacity, which a handful of ops never reaches: these runs
    # first age the process (child.pre_fill: fresh names / constants until the watched containers are `delta` entries below
    # the capacity they reveal by shrinking or by no longer growing), then let the clients meet with dense pre-emption in the
    # functions that write the state.  Nothing of this runs on a tree without new state.
    cap_paths, cap_fns, cap_fams = set(), {}, []
    for bi, wf in wfs.items():
        for f in wf.get('by_fn', []):
            nov = [p_ for p_ in f[3] if not _known_state(p_) and not p_.startswith(('interp:', 'tree[', 'renderer[', 'catalogs'))]
            if nov:
                cap_paths.update(nov)
                cap_fns[tuple(f[:3])] = list(f[:3])
                for fam_ in bases[bi]['families'][:1]:
                    if fam_ not in cap_fams:
                        cap_fams.append(fam_)
    if cap_paths:
        fns = sorted(cap_fns.values())
        fam_cycle = (cap_fams[:3] + [f_ for f_ in ('wide_inputs',) if f_ in c['families']]) or ['wide_inputs']
        for r in range(wf_runs * 8):
            bb = gen.gen_sweep_base(seed * 1_000_000 + 970_000 + r // 2, c, ref, fam_cycle[r % len(fam_cycle)])
            spec = _copy.deepcopy(bb)
            spec['strategy'] = {'kind': 'focus', 'fns': fns, 'p': (0.15, 0.4, 0.1, 0.3)[r % 4]}
            spec['sched_seed'] = (bb['sched_seed'] + 32452843 * (r + 1)) & 0x3FFFFFFF
            spec['directed'] = True
            spec['novel'] = True
            spec['state_inputs'] = 'capacity'
            spec['pre_fill'] = {'paths': sorted(cap_paths), 'delta': (0, 1, 2, 3, 5, 8, 13)[r % 7], 'tag': 'q%d' % (r % 3)}
            deferred.append(spec)
            directed += 1
    if deferred:
        ref.ensure([op for sp_ in deferred for cl in sp_['clients'] for op in cl])
        check_twice(ref, pool, found)
        for sp_ in deferred:
            sp_ = gen.attach(sp_, ref, probes)
            jobs.append((sp_['hashseed'], sp_))
    # runs directed at state that is not known from the pinned tree go first, everything else in random order
    rng.shuffle(jobs)
    jobs.sort(key=lambda j: 0 if j[1].get('state_inputs') else (1 if j[1].get('novel') else 2))
    t_jobs = time.time()
    pool.run_jobs(jobs, on_result=on, deadline=t_end)
    if os.environ.get('VERIF_DEBUG'):
        print('[C20] sweep: %d bases, %d with function lists, %d jobs, generated at %+.1fs before the deadline, ran %d' % (
            len(bases), sum(1 for v in lists.values() if v), len(jobs), t_end - t_jobs, stats.sweep_runs), flush=True)
    if harness:
        spec, err = harness[0]
        raise HarnessError('focus sweep seed %s: %s' % (spec['seed'], err))
    return len(jobs)


STATE_INPUTS = {'interp:recursionlimit': ['built_chains']}
KNOWN_STATE = ('mindsdb_sql.parser.ast.select.identifier.RESERVED_KEYWORDS', 'interp:decimal')       # (decimal: flags of the per-thread context, set by SQLAlchemy's numeric literals)


def _known_state(path):
    # the pinned tree's renderer normalises a 'serial' column of the CREATE TABLE tree it is given in place
    return path in KNOWN_STATE or (path.startswith('renderer[') and path.endswith('.dialect')) or (
        path.startswith('tree[') and 'create table' in path.lower() and 'serial' in path.lower())


def hash_str(s):
    import zlib
    return zlib.crc32(s.encode())


def main(tier='quick', seed=0, repo=None):
    t0 = time.time()
    repo = repo or os.environ.get('VERIF_REPO')
    c = corpus()
    probes = c['probes']
    budget_s = float(os.environ.get('VERIF_BUDGET_S', '900' if tier == 'thorough' else '85'))
    if tier == 'quick':
        n_s1, n_s2, n_s3, s3_slice, instr_frac, sa_frac, max_min = 1600, 800, 16, 400, 0.08, 0.0, 150
        n_s3g = 48
        fr = 0.42
        sweep = (2, 3, 0.33)
    else:
        n_s1, n_s2, n_s3, s3_slice, instr_frac, sa_frac, max_min = 10 ** 7, 10 ** 7, 64, None, 0.25, 0.15, 300
        n_s3g = 400
        fr = 0.5
        sweep = (3, 4, 0.4)
    stats = Stats()
    found = Found()
    s3_viol = []
    print('[C20] tier=%s seed=%d repo=%s' % (tier, seed, repo or '/repo'), flush=True)
    ref_pool = Pool([0] * 12, repo)
    sim_pool = Pool(gen.HASHSEEDS, repo)
    try:
        gen.set_hints(c)
        gen.QUICK[0] = (tier == 'quick')
        oplist = list(refs.all_ops(c).values())
        ref = refs.LazyRef(ref_pool)
        ref.ensure(probes)
        if tier == 'thorough':
            ref.ensure(oplist)
            print('[C20] reference table: %d ops in %.1fs' % (len(ref), time.time() - t0), flush=True)
        check_twice(ref, sim_pool, found)
        # time plan: what is left after start-up is split between the random / family phase (explore), the systematic
        # focus sweep with the state-directed runs, and S3 (fixed work, ~12 % reserved)
        now = time.time()
        left = max(20.0, budget_s - (now - t0))
        t_end = now + left * fr
        phases = [('startup', round(now - t0, 1))]
        if not found.full():
            explore(tier, seed, repo, budget_s, stats, found, ref, probes, sim_pool, t_end, n_s1, n_s2, instr_frac, sa_frac, chunk=200 if tier == 'quick' else 320)
        phases.append(('explore', round(time.time() - t0, 1)))
        if not found.full() and sweep[0]:
            t_sw = max(time.time() + 8.0, now + left * (fr + sweep[2]))
            focus_sweep(seed, stats, found, ref, probes, sim_pool, t_sw, sweep[0], sweep[1], 8 if tier == 'quick' else 40, 9 if tier == 'quick' else 80)
        phases.append(('sweep', round(time.time() - t0, 1)))
        # ---------------- S3
        s3_runs = 0
        s3_ops = 0
        s3_seeds = []
        if not found.full():
            rng = random.Random('C20/S3/%d' % seed)
            if tier == 'quick' and phases[0][1] > 15.0:
                # a slow machine (start-up took more than twice the usual 7 s: few cores, cold caches): S3 is fixed work of
                # ~300 cpu-seconds, which would double the run's wall-clock there; half the interpreters (the sixteen hash seeds
                # of the simulation zygotes are compared with the hash-seed-0 reference in every run anyway)
                n_s3, n_s3g = n_s3 // 2, n_s3g // 2
            s3_seeds = [1, 2, 3] + [rng.randrange(1, 1 << 32) for _ in range(n_s3 - 3)]
            s3_all = [op for op in oplist if op['k'] != 'flow']
            if s3_slice:
                # stratified slice: every family op kind, all malformed/mutation parse ops first (error paths), then the rest
                # half rejected inputs (error messages are where hash-seed dependence showed), a quarter one op per
                # stratum (kind x dialect x renderer/catalog x accepted/rejected, and two ops of every family), the rest random
                hints = c.get('hints') or {}
                is_err = lambda op: op['k'] == 'parse' and (hints.get(O.op_key(op)) or ['ok'])[0] == 'err'  # noqa
                errs = [op for op in s3_all if is_err(op)]
                rest = [op for op in s3_all if not is_err(op)]
                rng.shuffle(errs)
                rng.shuffle(rest)
                strat = []
                for name in sorted(gen.strata(c, ref)):
                    lst = gen.strata(c, ref)[name]
                    strat.append(lst[rng.randrange(len(lst))])
                for f in sorted(c['families']):
                    lst = [op for op in c['families'][f] if op['k'] != 'flow']
                    strat.extend(rng.sample(lst, min(2, len(lst))))
                rng.shuffle(strat)
                # families made of inputs that are sensitive to process configuration / first-use order go in whole
                whole = [op for f in ('dialect_diff', 'reserved_words', 'raw_queries', 'plural_slots') for op in c['families'].get(f, [])]
                pick, seen_k = [], set()
                for op in whole + errs[:s3_slice // 2] + strat[:s3_slice // 2] + rest:
                    k = O.op_key(op)
                    if k not in seen_k:
                        seen_k.add(k)
                        pick.append(op)
                    if len(pick) >= s3_slice + s3_slice // 4:
                        break
                s3_all = pick
            # S3g: many more hash seeds for the grammar only.  The LALR tables are built at import from sets of token names,
            # so a hash-seed dependence of the grammar can be confined to a few per cent of the seeds; an interpreter that only
            # parses mindsdb-dialect texts starts in a third of the time, so the seeds can be many.
            g_ops = [op for f in ('raw_queries', 'dialect_diff', 'accept_reject', 'reserved_words', 'keyword_blends') for op in c['families'].get(f, [])
                     if op['k'] == 'parse' and op['d'] == 'mindsdb']
            g_seeds = [rng.randrange(1, 1 << 32) for _ in range(n_s3g)]
            ref.ensure(s3_all + g_ops, count=False)
            check_twice(ref, sim_pool, found)
            sim_pool.close()
            ref_pool.close()
            for seeds_, ops_ in ((s3_seeds, s3_all), (g_seeds, g_ops)):
                for h, perm, out in run_s3(seeds_, ops_, ref, repo, seed):
                    s3_runs += 1
                    s3_ops += len(perm)
                    for i, (op, rec) in enumerate(zip(perm, out)):
                        if rec['dg'] != ref[O.op_key(op)]['dg']:
                            s3_viol.append((h, perm, i, rec.get('obs')))
                            break
            s3_seeds = s3_seeds + g_seeds
        phases.append(('s3', round(time.time() - t0, 1)))
        print('[C20] phases (seconds since start): %s' % phases, flush=True)
        if os.environ.get('VERIF_DEBUG'):
            for x in sorted(stats.slow, reverse=True)[:12]:
                print('[C20] slow run: %s' % (x,), flush=True)
        # ---------------- violations
        nviol = 0
        unreplayed = []
        known = report.load_known(PROP)
        for spec, res, m in found.items:
            data, err = finalize_violation(spec, res, m, ref, repo, max_min, 45 if tier == 'quick' else 240)
            if data is None:
                # a deviation whose explicit schedule does not reproduce is never reported as a VIOLATION; it is a harness error
                # unless another deviation of this check run does reproduce (then that one is the report, this one a note)
                unreplayed.append('violation of seed %s could not be replayed: %s (signature %r)' % (spec['seed'], err, M.signature_of(m)))
                print('[C20] note: %s' % unreplayed[-1], flush=True)
                continue
            path = report.write_replay(PROP, '%s-%s' % (spec['sub'], spec['seed']), data)
            k = match_known(known, data)
            if k is not None:
                print('KNOWN-FINDING: property=%s %s' % (PROP, k['what']), flush=True)
                continue
            nviol += 1
            print('[C20] %s violation (%s): op=%s\n  expected: %s\n  observed: %s' % (
                data['invariant'], data['classification'], json.dumps(data['op']), (data['expected'] or '')[:400], data['observed'][:400]), flush=True)
            report.violation_line(PROP, path)
        seen_s3 = set()
        for h, perm, i, obs in s3_viol[:3]:
            op = perm[i]
            if O.op_key(op) in seen_s3:
                continue
            seen_s3.add(O.op_key(op))
            prefix, obs2 = s3_minimise(h, perm, i, ref[O.op_key(op)]['dg'], repo)
            data = {'property': PROP, 'kind': 's3', 'hashseed': h, 'ops': prefix + [op], 'op': op, 'invariant': 'I1',
                    'classification': 'configuration (hash seed / cold start order)',
                    'expected': ref[O.op_key(op)]['obs'], 'observed': obs2 or obs}
            path = report.write_replay(PROP, 'S3-%s-%s' % (h, dg(O.op_key(op))[:6]), data)
            k = match_known(known, data)
            if k is not None:
                print('KNOWN-FINDING: property=%s %s' % (PROP, k['what']), flush=True)
                continue
            nviol += 1
            print('[C20] S3 violation under PYTHONHASHSEED=%s: op=%s\n  expected: %s\n  observed: %s' % (
                h, json.dumps(op), data['expected'][:400], (data['observed'] or '')[:400]), flush=True)
            report.violation_line(PROP, path)
        wall = time.time() - t0
        sim_runs = stats.runs['S1'] + stats.runs['S2']
        evaluations = sim_runs + s3_runs
        cov = {
            'evaluations': evaluations,
            'distinct_nontrivial': len(stats.sigs),
            'rule': 'an evaluation is one simulated run or one S3 interpreter. Simulated runs: S1 = 2-4 baton-scheduled client threads running 2-8 ops each '
                    '(random stream: Bernoulli / PCT-like / round-robin / focus strategies; focus sweep: dense pre-emption inside one contended function, '
                    'line-level, bytecode-level, and with a fault inside it; state-directed runs: dense pre-emption in the functions that write state which '
                    'outlives a call); S2 = one client: a short fully instrumented history (10-40 ops), a long one (120-250 ops) or one history per corpus '
                    'family (all its ops, shuffled, twice). S3 = a fresh interpreter under another PYTHONHASHSEED running a permuted corpus slice (full) '
                    'or only the mindsdb-dialect texts of the grammar-sensitive families (grammar-only). A run is non-trivial if at least one context '
                    'switch, injected fault or injected gc actually happened; distinct = distinct SHA-256 of the sequence of (client, file, line) at switch '
                    'points plus the fired faults. S3 interpreters and un-instrumented histories are not counted as distinct_nontrivial.',
            'samples': stats.samples or [{'note': 'no S1 run with a switch completed'}],
            'runs': dict(stats.runs), 's3_interpreters': s3_runs, 's3_ops_executed': s3_ops, 's3_hashseeds': s3_seeds,
            'nontrivial_runs': stats.nontrivial,
            'simulated_steps_total (logical time)': stats.steps, 'context_switches_total': stats.switches,
            'faults_fired': dict(stats.fired), 'faults_configured': dict(stats.configured), 'gc_injected': stats.gc,
            'aborts_swallowed_by_library': stats.swallowed,
            'strategies': dict(stats.strategies), 'granularity': dict(stats.gran), 'scope': dict(stats.scope),
            'catalog_sharing': dict(stats.cat_mode), 'renderer_sharing': dict(stats.rnd_mode), 'metadata_shared_across_catalogs_runs': stats.meta_share,
            'hashseeds_of_sim_runs': {str(k): v for k, v in sorted(stats.hashseeds.items())},
            'ops_executed_in_sim': stats.ops_run, 'distinct_ops_in_sim': len(stats.distinct_ops), 'reference_table_size': len(ref),
            'families_drawn': dict(stats.families),
            'op_kind_overlap_pairs': sorted('%s|%s' % p for p in stats.kind_pairs),
            'same_function_overlap_distinct_functions': len(stats.overlap),
            'same_function_overlap_named': {n: stats.overlap.get(n, 0) for n in NAMED_PROBES},
            'family_histories (all ops of one family, shuffled, twice, one process)': stats.famhist_runs,
            'tree_histories (a few statements, each rendered under every dialect name on one shared tree object)': stats.treehist_runs,
            's1_aged_process_runs (a single-threaded prehistory before the clients start)': stats.aged_runs, 's1_aged_prehistory_ops_executed': stats.aged_ops,
            'capacity_directed_runs (process aged to the edge of the capacity of new shared state; 0 on a tree without new state)': stats.capacity_runs,
            'capacity_directed_runs_that_found_a_capacity': stats.capacity_found,
            'abort_point_sweep': {'ops_profiled': stats.abort_ops, 'points_planned (distinct lines of repo code, first and last execution)': stats.abort_points_planned,
                                  'runs': stats.abort_runs, 'distinct_sites_where_the_fault_landed': len(stats.abort_sites)},
            's2_long_histories': stats.long_runs, 's2_long_ops_executed': stats.long_ops,
            's2_long_ordered_pairs (earlier op, later op) in one process': stats.long_pairs,
            'focus_sweep_runs': stats.sweep_runs, 'focus_sweep_distinct_functions': len(stats.sweep_functions),
            'state_directed_runs': stats.directed_runs,
            'state_outliving_a_call (paths whose fingerprint changed; search guidance only, not an oracle)': sorted(stats.state_paths)[:40],
            'state_not_known_from_the_pinned_tree (gets 12x the directed runs)': sorted(stats.novel_state)[:20],
            'functions_writing_such_state': sorted('%s:%s' % f for f in stats.write_functions)[:40],
            'lock_yields (client blocked on a lock held by a parked client)': stats.lock_yields,
            'sim_runs_per_hour': int(sim_runs / max(wall, 1e-6) * 3600), 'seeds_per_hour': int(evaluations / max(wall, 1e-6) * 3600),
            'reference_seconds': round(ref.seconds, 1), 'components': COMPONENTS,
            'exhaustive': False,
        }
        for n in NAMED_PROBES:
            if stats.runs['S1'] and not stats.overlap.get(n):
                print('[C20] warning: probe "two clients inside %s at once" stuck at zero' % n, flush=True)
        report.write_evidence(PROP, tier, seed, cov, ASSUMPTIONS, wall, nviol)
        print('[C20] reference table: %d ops computed in %.1fs' % (len(ref), ref.seconds), flush=True)
        print('[C20] %d sim runs (%s), %d S3 interpreters, %d steps, %d switches, faults fired %s, %d distinct interleavings, %.1fs' % (
            sim_runs, dict(stats.runs), s3_runs, stats.steps, stats.switches, dict(stats.fired), len(stats.sigs), wall), flush=True)
        if unreplayed and not nviol:
            raise HarnessError(unreplayed[0])
        return 1 if nviol else 0
    finally:
        ref_pool.close()
        sim_pool.close()


def match_known(known, data):
    import re
    for k in known:
        mt = k.get('match', {})
        ok = True
        if 'op_sql_regex' in mt and not re.search(mt['op_sql_regex'], data['op'].get('sql', '')):
            ok = False
        if 'observed_regex' in mt and not re.search(mt['observed_regex'], data.get('observed') or ''):
            ok = False
        if 'kind' in mt and mt['kind'] != data.get('kind'):
            ok = False
        if ok and mt:
            return k
    return None


def replay(path, repo=None):
    """Re-execute a replay file against the current tree; the reference of the ops involved is
    recomputed (isolated, hash seed 0).  Exit 1 + VIOLATION line when the violation recurs."""
    repo = repo or os.environ.get('VERIF_REPO')
    with open(path) as f:
        data = json.load(f)
    c = corpus()
    if data['kind'] == 's3':
        with Pool([0], repo) as rp:
            ref, _ = refs.compute(rp, [data['op']], count=False)
        want = ref[O.op_key(data['op'])]['dg']
        out = s3_exec(data['hashseed'], data['ops'], [None] * (len(data['ops']) - 1) + [want], repo)
        bad = out[-1]['dg'] != want
        print('[C20] replay S3 hashseed=%s: %s' % (data['hashseed'], 'deviates' if bad else 'matches the reference'))
        if bad:
            print('  expected: %s\n  observed: %s' % (ref[O.op_key(data['op'])]['obs'][:400], (out[-1].get('obs') or '')[:400]))
            report.violation_line(PROP, path)
            return 1
        return 0
    spec = data['spec']
    ops = {}
    for cl in spec['clients']:
        for op in cl:
            ops[O.op_key(op)] = op
    for op in spec.get('probes', []) + (spec.get('pre') or []):
        ops[O.op_key(op)] = op
    with Pool([0] * 4, repo) as rp:
        ref, _ = refs.compute(rp, list(ops.values()))
    spec = gen.attach(spec, ref, spec.get('probes', []))
    with Pool([data['hashseed']], repo) as fp:
        r = fp.z[0].call(spec)
    if 'harness_error' in r:
        raise HarnessError(r['harness_error'])
    same = [m for m in r['mismatches'] if m['inv'] == data['invariant'] and O.op_key(m['op']) == O.op_key(data['op'])]
    print('[C20] replay seed=%s hashseed=%s: %d mismatching ops, event-log digest %s' % (data.get('seed'), data['hashseed'], len(r['mismatches']), r['digest']))
    if same:
        m = same[0]
        print('  op: %s\n  expected: %s\n  observed: %s' % (json.dumps(m['op']), ref[O.op_key(m['op'])]['obs'][:400], m['observed'][:400]))
        print('  same observable as recorded: %s' % (dg(m['observed']) == data['signature'][2]))
        report.violation_line(PROP, path)
        return 1
    return 0
