"""What runs inside one forked child of a zygote: one simulated run (or one reference batch)."""
import gc
import hashlib
import json
import os
import sys
import time

from . import ops as O


def dg(s):
    return hashlib.sha256(s.encode('utf-8', 'replace')).hexdigest()[:16]


def repo_root():
    return os.environ.get('VERIF_REPO', '/repo')


def resolve_scope(names):
    root = os.path.realpath(repo_root())
    out = []
    for n in names:
        if n == 'repo':
            out += [os.path.join(root, 'mindsdb_sql') + os.sep, os.path.join(root, 'sly') + os.sep]
        elif n == 'sqlalchemy':
            import sqlalchemy
            out.append(os.path.dirname(os.path.realpath(sqlalchemy.__file__)) + os.sep)
        elif n == 'copy':
            import copy
            out.append(os.path.realpath(copy.__file__))
    return out


_CORPUS = None


def corpus():
    global _CORPUS
    if _CORPUS is None:
        p = os.path.join(os.path.dirname(os.path.abspath(__file__)), 'corpus', 'corpus.json')
        with open(p) as f:
            _CORPUS = json.load(f)
    return _CORPUS


# ---------------------------------------------------------------------------------------------
def run_ref(spec):
    """Isolated reference of a list of ops: each op with pristine catalog copies and a fresh
    renderer, single-threaded, un-instrumented; then once more under event counting (the count
    feeds budgets/fault placement, and the two observables must agree: monitoring is transparent).
    NB: the caller forks one child per op, so `ops` normally has length 1."""
    from .sched import count_events
    cats = corpus()['catalogs']
    scope = resolve_scope(['repo'])
    out = []
    for op in spec['ops']:
        env = O.Env(cats, 'op', 'op')
        try:
            obs = O.run_op(op, env)
        except BaseException as e:  # noqa
            obs = 'base-' + O.exc_obs(e)
        rec = {'obs': obs}
        if spec.get('count', True):
            env = O.Env(cats, 'op', 'op')
            try:
                obs2, n = count_events(lambda: O.run_op(op, env), scope)
            except BaseException as e:  # noqa
                obs2, n = 'base-' + O.exc_obs(e), 0
            rec['ev'] = n
            if obs2 != obs:
                rec['obs2'] = obs2
        out.append(rec)
    return {'refs': out}


# ---------------------------------------------------------------------------------------------
def run_sim(spec):
    """One simulated C20 run (S1 with several clients, S2 with one)."""
    from .sched import Sim, Client
    t0 = time.time()
    cats = corpus()['catalogs']
    gc.collect()
    gc.disable()
    nclients = len(spec['clients'])
    shared_env = O.Env(cats, 'shared' if spec['cat_mode'] == 'shared' else 'op',
                       'shared' if spec['rnd_mode'] == 'shared' else 'op', spec.get('meta_share', False))
    rds = sorted({op['rd'] for cl in spec['clients'] for op in cl if 'rd' in op})
    shared_env.prebuild_renderers(rds)
    clients = []
    envs = []
    for i, cl in enumerate(spec['clients']):
        env = O.Env(cats, spec['cat_mode'], spec['rnd_mode'], spec.get('meta_share', False), shared=shared_env)
        env.prebuild_renderers(rds)
        envs.append(env)
        c = Client(i, cl, env)
        if spec.get('budget'):
            c.budgets = [spec['budget'].get(O.op_key(op), 1 << 60) for op in cl]
        clients.append(c)
    sspec = dict(spec)
    sspec['scope'] = resolve_scope(spec.get('scope', ['repo']))
    sspec['fault_scope'] = resolve_scope(['repo'])
    sim = Sim(sspec, clients, watchdog_s=spec.get('watchdog_s', 120.0))
    ok = sim.run()
    if not ok:
        import faulthandler
        faulthandler.dump_traceback(file=sys.stderr, all_threads=True)
        return {'harness_error': 'watchdog: run did not finish in %ss (step %d)' % (sim.watchdog_s, sim.step)}
    if sim.error:
        return {'harness_error': sim.error}
    exp = spec.get('expected') or {}
    faulted = {}
    for c in clients:
        for op_i, op_ev, kind, where in c.fired:
            faulted[(c.cid, op_i)] = kind
    results = []
    mism = []
    swallowed = 0
    for c in clients:
        row = []
        for i, (op, obs) in enumerate(zip(c.ops, c.results)):
            d = dg(obs)
            row.append(d)
            f = faulted.get((c.cid, i))
            if f is not None:
                # the op hit by an injected fault is not judged (F2: must surface the abort, only counted; F3: unconstrained)
                if f == 'abort' and obs != 'abort':
                    swallowed += 1
                continue
            if obs == 'budget':
                mism.append({'client': c.cid, 'op_i': i, 'op': op, 'expected': exp.get(O.op_key(op)), 'observed': obs,
                             'inv': 'I3'})
                continue
            e = exp.get(O.op_key(op))
            if e is not None and e != d:
                mism.append({'client': c.cid, 'op_i': i, 'op': op, 'expected': e, 'observed': obs, 'inv': 'I1'})
        results.append(row)
    # I2: after faults stop, the process must still serve correct answers (single-threaded probes)
    probe_mism = []
    for op in spec.get('probes', []):
        env = O.Env(cats, 'op', 'op')
        try:
            obs = O.run_op(op, env)
        except BaseException as e:  # noqa
            obs = 'base-' + O.exc_obs(e)
        e = exp.get(O.op_key(op))
        if e is not None and e != dg(obs):
            probe_mism.append({'client': -1, 'op_i': -1, 'op': op, 'expected': e, 'observed': obs, 'inv': 'I2'})
    # classification of I1 mismatches (report only; every mismatch is a violation)
    for m in mism:
        if m['inv'] != 'I1':
            continue
        try:
            alone = O.run_op(m['op'], O.Env(cats, 'op', 'op'))
        except BaseException as e:  # noqa
            alone = 'base-' + O.exc_obs(e)
        if dg(alone) != m['expected']:
            m['class'] = 'process-state-or-configuration'
        else:
            try:
                again = O.run_op(m['op'], envs[m['client']])
            except BaseException as e:  # noqa
                again = 'base-' + O.exc_obs(e)
            m['class'] = 'shared-object-history' if dg(again) != m['expected'] else 'interleaving'
    import zlib
    sig = hashlib.sha256(repr(sim.switch_sites).encode() + repr([(c.cid, c.fired) for c in clients]).encode()).hexdigest()[:16]
    return {
        'results': results, 'mismatches': mism + probe_mism, 'steps': sim.step, 'digest': '%012x' % sim.digest,
        'nswitch': len(sim.switches), 'switches': sim.switches if spec.get('record', True) else None,
        'finishes': sim.finishes, 'first': sim.first,
        'fired': [[c.cid] + f for c in clients for f in c.fired], 'gc_fired': len(sim.gc_fired), 'gcs_at': sim.gc_fired,
        'op_evs': [c.op_evs for c in clients], 'sig': sig, 'swallowed': swallowed,
        'overlap': sim.overlap_funcs, 'wall': time.time() - t0,
    }


def dispatch(spec):
    kind = spec.get('cmd', 'sim')
    if kind == 'ref':
        return run_ref(spec)
    if kind == 'sim':
        return run_sim(spec)
    if kind == 'c12':
        from . import c12
        return c12.run_child(spec)
    raise ValueError(kind)
