"""What runs inside one forked child of a zygote: one simulated run (or one reference batch)."""
import gc
import hashlib
import json
import os
import sys
import time

from . import ops as O


def dg(s):
    return hashlib.sha256(s.encode('utf-8', 'replace')).hexdigest()[:16]


def repo_root():
    return os.environ.get('VERIF_REPO', '/repo')


def resolve_scope(names):
    root = os.path.realpath(repo_root())
    out = []
    for n in names:
        if n == 'repo':
            out += [os.path.join(root, 'mindsdb_sql') + os.sep, os.path.join(root, 'sly') + os.sep]
        elif n == 'sqlalchemy':
            import sqlalchemy
            out.append(os.path.dirname(os.path.realpath(sqlalchemy.__file__)) + os.sep)
        elif n == 'copy':
            import copy
            out.append(os.path.realpath(copy.__file__))
    return out


_CORPUS = None


def corpus():
    global _CORPUS
    if _CORPUS is None:
        p = os.path.join(os.path.dirname(os.path.abspath(__file__)), 'corpus', 'corpus.json')
        with open(p) as f:
            _CORPUS = json.load(f)
    return _CORPUS


# ---------------------------------------------------------------------------------------------
def run_ref(spec):
    """Isolated reference of a list of ops: each op with pristine catalog copies and a fresh
    renderer, single-threaded, un-instrumented; then once more under event counting (the count
    feeds budgets/fault placement, and the two observables must agree: monitoring is transparent).
    NB: the caller forks one child per op, so `ops` normally has length 1."""
    from .sched import count_events
    cats = corpus()['catalogs']
    scope = resolve_scope(['repo'])
    out = []
    for op in spec['ops']:
        env = O.Env(cats, 'op', 'op')
        try:
            obs = O.run_op(op, env)
        except BaseException as e:  # noqa
            obs = 'base-' + O.exc_obs(e)
        rec = {'obs': obs}
        if spec.get('count', True):
            env = O.Env(cats, 'op', 'op')
            try:
                obs2, n = count_events(lambda: O.run_op(op, env), scope)
            except BaseException as e:  # noqa
                obs2, n = 'base-' + O.exc_obs(e), 0
            rec['ev'] = n
            if obs2 != obs:
                rec['obs2'] = obs2
        out.append(rec)
    return {'refs': out}


# ---------------------------------------------------------------------------------------------
def pick_focus(spec):
    """For the 'focus' strategy: which repo functions do at least two clients of this run execute?  Found out
    in a forked grandchild (so that the run's own process stays pristine: no warmed-up lazy state), by running
    every client's ops once, single-threaded, under a recording callback.  Returns the sorted list of
    [file (relative to the repo), function name, first line]."""
    import sys as _sys
    mon = _sys.monitoring
    r, w = os.pipe()
    pid = os.fork()
    if pid == 0:
        code = 0
        try:
            os.close(r)
            root = os.path.realpath(repo_root()) + os.sep
            prefixes = tuple(resolve_scope(['repo']))
            seen = {}
            cur = [0]
            cache = {}

            def cb(codeobj, pos):
                ok = cache.get(codeobj)
                if ok is None:
                    ok = cache[codeobj] = codeobj.co_filename.startswith(prefixes)
                if not ok:
                    return mon.DISABLE
                seen[codeobj] = seen.get(codeobj, 0) | cur[0]

            cats = corpus()['catalogs']
            mon.use_tool_id(3, 'dsim-focus')
            mon.register_callback(3, mon.events.PY_START, cb)
            mon.set_events(3, mon.events.PY_START)
            for i, cl in enumerate(spec['clients']):
                cur[0] = 1 << i
                for op in cl:
                    try:
                        O.run_op(op, O.Env(cats, 'op', 'op'))
                    except BaseException:  # noqa
                        pass
            mon.set_events(3, 0)
            out = sorted([c.co_filename[len(root):], c.co_name, c.co_firstlineno] for c, m in seen.items() if m & (m - 1))
            with os.fdopen(w, 'wb') as f:
                f.write(json.dumps(out).encode())
        except BaseException:  # noqa
            code = 3
        finally:
            os._exit(code)
    os.close(w)
    chunks = []
    with os.fdopen(r, 'rb') as f:
        chunks.append(f.read())
    os.waitpid(pid, 0)
    try:
        return json.loads(b''.join(chunks).decode())
    except Exception:
        return []


def build_envs(spec, cats):
    shared_env = O.Env(cats, 'shared' if spec['cat_mode'] == 'shared' else 'op',
                       'shared' if spec['rnd_mode'] == 'shared' else 'op', spec.get('meta_share', False))
    rds = sorted({op['rd'] for cl in spec['clients'] for op in cl if 'rd' in op})
    shared_env.prebuild_renderers(rds)
    if spec.get('tree_share'):
        shared_env.prebuild_trees([op for cl in spec['clients'] for op in cl])
    envs = []
    single = len(spec['clients']) == 1 or spec['cat_mode'] == 'client'
    for cl in spec['clients']:
        env = O.Env(cats, spec['cat_mode'], spec['rnd_mode'], spec.get('meta_share', False), shared=shared_env, edits_in_place=single)
        env.prebuild_renderers(rds)
        env.scribble = bool(spec.get('scribble'))
        envs.append(env)
    return shared_env, envs


def _shared_objects(shared_env, envs):
    out = []
    seen = set()
    for i, e in enumerate([shared_env] + envs):
        for rd, r in sorted((e._rnd or {}).items()):
            if id(r) not in seen:
                seen.add(id(r))
                out.append(('renderer[%s]' % rd, r))
                out.append(('renderer[%s].dialect' % rd, getattr(r, '__dict__', {}).get('dialect', None)))
        if e._cats is not None and id(e._cats) not in seen:
            seen.add(id(e._cats))
            out.append(('catalogs', e._cats))
        trees = getattr(e, '_trees', None)
        if trees and id(trees) not in seen:
            seen.add(id(trees))
            for key, tree in sorted(trees.items(), key=lambda kv: repr(kv[0])):
                if key[0] == 'tpl':
                    out.append(('tpl[%s|%s]' % (key[1], (key[2] or '')[:60]), tree))
                    continue
                out.append(('tree[%s|%s]' % (key[0], (key[1] or key[2] or '')[:40]), tree))
    return out


def _forked(fn):
    """Run fn() in a forked grandchild and return its JSON-able result (None on failure)."""
    r, w = os.pipe()
    pid = os.fork()
    if pid == 0:
        code = 0
        try:
            os.close(r)
            data = json.dumps(fn()).encode()
            with os.fdopen(w, 'wb') as f:
                f.write(data)
        except BaseException:  # noqa
            code = 3
        finally:
            os._exit(code)
    os.close(w)
    with os.fdopen(r, 'rb') as f:
        data = f.read()
    os.waitpid(pid, 0)
    try:
        return json.loads(data.decode())
    except Exception:
        return None


def find_write_functions(spec):
    """Which repo functions write state that outlives a call (module / class level data, function defaults, the run's
    shared renderer and catalog objects) while this scenario's ops run?  Pass 1 (one grandchild): which state paths
    change at all.  Pass 2 (another, pristine grandchild): re-run under LINE events and note in which function the
    fingerprint of those paths changes.  Only used to direct the schedule search (never an oracle)."""
    from . import state
    import sys as _sys
    mon = _sys.monitoring
    cats = corpus()['catalogs']
    prefixes = tuple(resolve_scope(['repo']))
    root = os.path.realpath(repo_root()) + os.sep

    def run_all(envs):
        for cl, env in zip(spec['clients'], envs):
            for op in cl:
                try:
                    O.run_op(op, env)
                except BaseException:  # noqa
                    pass

    def pass1():
        # fingerprint after EVERY op: a flag that one call sets and the next resets is shared state too
        shared_env, envs = build_envs(spec, cats)
        prev = state.fingerprint(state.roots(prefixes, _shared_objects(shared_env, envs)))
        changed_ = set()
        for cl, env in zip(spec['clients'], envs):
            for op in cl:
                try:
                    O.run_op(op, env)
                except BaseException:  # noqa
                    pass
                cur = state.fingerprint(state.roots(prefixes, _shared_objects(shared_env, envs)))
                changed_.update(k for k in cur if prev.get(k) != cur[k])
                prev = cur
        return sorted(changed_)

    changed = _forked(pass1) or []
    # interpreter-wide settings are followed line by line in any case: a call may change one and restore it before it returns
    chset = set(changed) | {p_ for p_, _ in state.interp_roots()}

    def pass2():
        shared_env, envs = build_envs(spec, cats)
        rl = [(p_, g) for p_, g in state.roots(prefixes, _shared_objects(shared_env, envs)) if p_ in chset]
        last = [state.fingerprint_light(rl), None]
        hits = {}
        cache = {}
        names = [p_ for p_, _ in rl]

        def cb(code, line):
            ok = cache.get(code)
            if ok is None:
                ok = cache[code] = code.co_filename.startswith(prefixes)
            if not ok:
                return mon.DISABLE
            fp = state.fingerprint_light(rl)
            if fp != last[0]:
                prev = last[1]
                if prev is not None:
                    key = (prev.co_filename[len(root):], prev.co_name, prev.co_firstlineno)
                    which = hits.setdefault(key, set())
                    for i_, (a_, b_) in enumerate(zip(fp, last[0])):
                        if a_ != b_:
                            which.add(names[i_])
                last[0] = fp
            last[1] = code

        mon.use_tool_id(3, 'dsim-wf')
        mon.register_callback(3, mon.events.LINE, cb)
        mon.set_events(3, mon.events.LINE)
        run_all(envs)
        mon.set_events(3, 0)
        return sorted([list(k) + [sorted(v)] for k, v in hits.items()])[:16]

    fns = _forked(pass2) or []
    return {'paths': changed[:30], 'fns': [f[:3] for f in fns], 'by_fn': fns}


def choose_focus(spec):
    st = spec['strategy']
    if st.get('kind') == 'focus' and st.get('fn') and st.get('instr') and not spec.get('instr_fn'):
        spec['instr_fn'] = st['fn']
    if st.get('kind') != 'focus' or st.get('fn'):
        return
    fns = pick_focus(spec)
    # grammar actions and lexer rules are pure functions of their arguments: prefer everything else
    rest = [f for f in fns if not f[0].endswith(('parser.py', 'lexer.py')) or f[0].startswith('sly')]
    pick = st.get('pick', 0)
    pool_ = rest if (rest and pick % 5 != 0) else fns
    if not pool_:
        st['kind'] = 'bernoulli'
        st['p'] = 0.01
        return
    st['fn'] = pool_[(pick // 5) % len(pool_)]
    if st.get('instr'):
        spec['instr_fn'] = st['fn']


def pre_fill(pf):
    """State-directed ageing: bring containers that outlive a call (paths found by the state fingerprint) to the edge of their
    capacity before the clients start.  Feeds statements with fresh names / constants (parse, plan, render in turn), single-
    threaded and without event delivery, and watches len() of the named containers: a drop (cleared when full) or a plateau
    (eviction) tells the capacity; feeding stops `delta` entries below it (or at the plateau), so that the first few new keys
    of the simulated clients cross the edge.  Deterministic; the fed statements are not judged (they only age the process)."""
    from . import state
    want = set(pf.get('paths') or [])
    getters = [g for p_, g in state.roots(tuple(resolve_scope(['repo']))) if p_ in want]
    cats = corpus()['catalogs']
    cat = sorted(cats)[0]
    delta = int(pf.get('delta', 0))

    def sizes():
        out = []
        for g in getters:
            try:
                out.append(len(g()))
            except Exception:
                out.append(None)
        return out

    prev = sizes()
    cap = [None] * len(prev)
    still = [0] * len(prev)
    fed = 0
    info = {'fed': 0, 'capacity': None, 'final': None}
    if not any(x is not None for x in prev):
        return info
    tag = pf.get('tag', 'q')
    for i in range(int(pf.get('max_ops', 1200))):
        k = i % 3
        if k == 0:
            op = {'k': 'parse', 'd': 'mindsdb', 'sql': "select z%s%da, z%s%db from zt%d where z%s%dc = 'zv%d' and zd = %d" % (tag, i, tag, i, i, tag, i, i, 100000 + i)}
        elif k == 1:
            op = {'k': 'render', 'd': 'mindsdb', 'sql': "select z%s%dr from zt%d where zc = 'zw%d' limit %d" % (tag, i, i, i, 1000 + i), 'rd': 'mysql', 'fb': True}
        else:
            op = {'k': 'plan', 'd': 'mindsdb', 'sql': "select z%s%dp from int.zt%d where ze = %d" % (tag, i, i, 200000 + i), 'cat': cat}
        try:
            O.run_op(op, O.Env(cats, 'op', 'op'))
        except BaseException:  # noqa
            pass
        fed += 1
        cur = sizes()
        done = False
        for j, (a, b_) in enumerate(zip(prev, cur)):
            if a is None or b_ is None:
                continue
            if b_ < a and cap[j] is None:
                cap[j] = a                      # cleared / shrunk when full: the size before is the capacity
            still[j] = still[j] + 1 if b_ == a else 0
            if cap[j] is None and still[j] >= 40 and b_ > 0 and i >= 60:
                cap[j] = b_                     # plateau: eviction keeps it at its capacity
                done = True
            if cap[j] is not None and b_ >= cap[j] - delta and not (b_ < a):
                done = True
        prev = cur
        if done:
            break
    info.update({'fed': fed, 'capacity': [c_ for c_ in cap], 'final': prev})
    return info


def run_sim(spec):
    """One simulated C20 run (S1 with several clients, S2 with one)."""
    from .sched import Sim, Client
    t0 = time.time()
    cats = corpus()['catalogs']
    choose_focus(spec)
    gc.collect()
    gc.disable()
    nclients = len(spec['clients'])
    shared_env, envs = build_envs(spec, cats)
    clients = []
    for i, cl in enumerate(spec['clients']):
        env = envs[i]
        c = Client(i, cl, env)
        if spec.get('budget'):
            c.budgets = [spec['budget'].get(O.op_key(op), 1 << 60) for op in cl]
        clients.append(c)
    sspec = dict(spec)
    sspec['scope'] = resolve_scope(spec.get('scope', ['repo']))
    sspec['fault_scope'] = resolve_scope(['repo'])
    # aged process: what this process served before the clients start (single-threaded, no event delivery); judged like any
    # other history
    pre_mism = []
    exp0 = spec.get('expected') or {}
    fill_info = pre_fill(spec['pre_fill']) if spec.get('pre_fill') else None
    for j, op in enumerate(spec.get('pre') or []):
        try:
            obs = O.run_op(op, envs[j % nclients])
        except BaseException as e:  # noqa
            obs = 'base-' + O.exc_obs(e)
        e0 = exp0.get(O.op_key(op))
        if e0 is not None and e0 != dg(obs):
            pre_mism.append({'client': -2, 'op_i': j, 'op': op, 'expected': e0, 'observed': obs, 'inv': 'I1', 'class': 'history (aged process)'})
    sim = Sim(sspec, clients, watchdog_s=spec.get('watchdog_s', 120.0))
    ok = sim.run()
    if not ok:
        import faulthandler
        faulthandler.dump_traceback(file=sys.stderr, all_threads=True)
        return {'harness_error': 'watchdog: run did not finish in %ss (step %d)' % (sim.watchdog_s, sim.step)}
    if sim.error:
        return {'harness_error': sim.error}
    exp = spec.get('expected') or {}
    faulted = {}
    for c in clients:
        for op_i, op_ev, kind, where in c.fired:
            faulted[(c.cid, op_i)] = kind
    results = []
    mism = []
    swallowed = 0
    for c in clients:
        row = []
        for i, (op, obs) in enumerate(zip(c.ops, c.results)):
            d = dg(obs)
            row.append(d)
            f = faulted.get((c.cid, i))
            if f is not None:
                # the op hit by an injected fault is not judged (F2: must surface the abort, only counted; F3: unconstrained)
                if f == 'abort' and obs != 'abort':
                    swallowed += 1
                continue
            if obs in ('budget', 'deadlock'):
                mism.append({'client': c.cid, 'op_i': i, 'op': op, 'expected': exp.get(O.op_key(op)), 'observed': obs,
                             'inv': 'I3'})
                continue
            e = exp.get(O.op_key(op))
            if e is not None and e != d:
                mism.append({'client': c.cid, 'op_i': i, 'op': op, 'expected': e, 'observed': obs, 'inv': 'I1'})
        results.append(row)
    # I2: after faults stop, the process must still serve correct answers (single-threaded probes)
    probe_mism = []
    for op in spec.get('probes', []):
        env = O.Env(cats, 'op', 'op')
        try:
            obs = O.run_op(op, env)
        except BaseException as e:  # noqa
            obs = 'base-' + O.exc_obs(e)
        e = exp.get(O.op_key(op))
        if e is not None and e != dg(obs):
            probe_mism.append({'client': -1, 'op_i': -1, 'op': op, 'expected': e, 'observed': obs, 'inv': 'I2'})
    # classification of I1 mismatches (report only; every mismatch is a violation)
    for m in mism:
        if m['inv'] != 'I1':
            continue
        try:
            alone = O.run_op(m['op'], O.Env(cats, 'op', 'op'))
        except BaseException as e:  # noqa
            alone = 'base-' + O.exc_obs(e)
        if dg(alone) != m['expected']:
            m['class'] = 'process-state-or-configuration'
        else:
            try:
                again = O.run_op(m['op'], envs[m['client']])
            except BaseException as e:  # noqa
                again = 'base-' + O.exc_obs(e)
            m['class'] = 'shared-object-history' if dg(again) != m['expected'] else 'interleaving'
    import zlib
    sig = hashlib.sha256(repr(sim.switch_sites).encode() + repr([(c.cid, c.fired) for c in clients]).encode()).hexdigest()[:16]
    return {
        'results': results, 'mismatches': pre_mism + mism + probe_mism, 'pre_ops': len(spec.get('pre') or []), 'pre_fill': fill_info, 'steps': sim.step, 'digest': '%012x' % sim.digest,
        'nswitch': len(sim.switches), 'switches': sim.switches if spec.get('record', True) else None,
        'finishes': sim.finishes, 'first': sim.first,
        'fired': [[c.cid] + f for c in clients for f in c.fired], 'gc_fired': len(sim.gc_fired), 'gcs_at': sim.gc_fired,
        'op_evs': [c.op_evs for c in clients], 'sig': sig, 'swallowed': swallowed,
        'overlap': sim.overlap_funcs, 'wall': time.time() - t0, 'focus': spec['strategy'].get('fn'), 'focus_hits': sim.focus_hits, 'instr_fn': spec.get('instr_fn'), 'lock_yields': sim.lock_yields,
    }


def run_profile(spec):
    """Location profile of one op run alone in this (fresh) process: for every distinct (code object, line) of repo code the op
    executes, the index of the event at which it is executed for the first and for the last time.  A fault planned at such an
    index lands at that location: abort points can then be enumerated by *where* they are instead of drawn by *when*, so that a
    line executed once (a recovery path) is hit as surely as one executed a thousand times (the lexer loop)."""
    import sys as _sys
    mon = _sys.monitoring
    from .sched import NO_SWITCH_NAMES, TOOL
    prefixes = tuple(resolve_scope(['repo']))
    cache = {}
    first, last = {}, {}
    n = [0]

    def cb(code, line):
        sc = cache.get(code)
        if sc is None:
            sc = cache[code] = code.co_filename.startswith(prefixes) and code.co_name not in NO_SWITCH_NAMES
        if not sc:
            return mon.DISABLE
        n[0] += 1
        k = (code, line)
        if k not in first:
            first[k] = n[0]
        last[k] = n[0]

    env = O.Env(corpus()['catalogs'], 'op', 'op')
    mon.use_tool_id(TOOL, 'dsim-profile')
    mon.register_callback(TOOL, mon.events.LINE, cb)
    mon.set_events(TOOL, mon.events.LINE)
    try:
        try:
            O.run_op(spec['op'], env)
        except BaseException:  # noqa
            pass
    finally:
        mon.set_events(TOOL, 0)
        mon.register_callback(TOOL, mon.events.LINE, None)
        mon.free_tool_id(TOOL)
    return {'firsts': sorted(first.values()), 'lasts': sorted(set(last.values()) - set(first.values())), 'n': n[0]}


def dispatch(spec):
    kind = spec.get('cmd', 'sim')
    if kind == 'focus_list':
        return {'fns': pick_focus(spec), 'wf': find_write_functions(spec) if spec.get('want_wf') else None}
    if kind == 'ref':
        return run_ref(spec)
    if kind == 'profile':
        return run_profile(spec)
    if kind == 'sim':
        return run_sim(spec)
    if kind == 'c12':
        from . import c12
        return c12.run_child(spec)
    raise ValueError(kind)
