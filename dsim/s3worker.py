"""S3 worker (DESIGN §4.3): runs in a *fresh* interpreter (cold imports) under the PYTHONHASHSEED
given by the environment; executes the ops of the spec in the given order, single threaded, each
with pristine catalog copies, and prints digests (and the full observable where it differs from
the expected digest)."""
import json
import os
import sys


def main():
    spec = json.load(sys.stdin)
    root = os.environ.get('VERIF_REPO', '/repo')
    sys.path.insert(0, root)
    here = os.path.dirname(os.path.dirname(os.path.abspath(__file__)))
    sys.path.insert(0, here)
    from dsim import ops as O
    from dsim.child import dg, corpus
    cats = corpus()['catalogs']
    out = []
    exp = spec.get('expected', [])
    for i, op in enumerate(spec['ops']):
        try:
            obs = O.run_op(op, O.Env(cats, 'op', 'op'))
        except BaseException as e:  # noqa
            obs = 'base-' + O.exc_obs(e)
        d = dg(obs)
        rec = {'dg': d}
        if i < len(exp) and exp[i] is not None and exp[i] != d:
            rec['obs'] = obs
        out.append(rec)
    sys.stdout.write(json.dumps({'hashseed': os.environ.get('PYTHONHASHSEED'), 'out': out,
                                 'hash_randomization': sys.flags.hash_randomization}))


if __name__ == '__main__':
    main()
