#!/venv/bin/python
"""Entry point of the checks.  Usage (cwd /verif):
   /venv/bin/python cli.py check C20 --tier quick|thorough
   /venv/bin/python cli.py check C12 --tier quick|thorough
   /venv/bin/python cli.py replay <file>
   /venv/bin/python cli.py selftest [determinism|mutants]
Exit 0: the property held on everything explored.  Exit 1 + `VIOLATION property=<id> replay=<path>`:
violation not listed in known_findings.json.  Exit 2: harness error (never a pass).
VERIF_SEED seeds everything; VERIF_REPO points the checks at another copy of the repository.
"""
import argparse
import json
import os
import sys
import traceback

HERE = os.path.dirname(os.path.abspath(__file__))
sys.path.insert(0, HERE)
os.environ.setdefault('PYTHONDONTWRITEBYTECODE', '1')


def main():
    ap = argparse.ArgumentParser()
    sp = ap.add_subparsers(dest='cmd', required=True)
    c = sp.add_parser('check')
    c.add_argument('prop')
    c.add_argument('--tier', default=os.environ.get('VERIF_TIER', 'quick'), choices=['quick', 'thorough'])
    r = sp.add_parser('replay')
    r.add_argument('path')
    s = sp.add_parser('selftest')
    s.add_argument('what', nargs='?', default='determinism')
    s.add_argument('--n', type=int, default=None)
    a = ap.parse_args()
    seed = int(os.environ.get('VERIF_SEED', '0') or 0)
    from dsim.pool import HarnessError
    try:
        if a.cmd == 'check':
            if a.prop == 'C20':
                from dsim import c20
                return c20.main(a.tier, seed)
            if a.prop == 'C12':
                from dsim import c12
                return c12.main(a.tier, seed)
            print('unknown property %s' % a.prop)
            return 2
        if a.cmd == 'replay':
            with open(a.path) as f:
                prop = json.load(f)['property']
            if prop == 'C20':
                from dsim import c20
                return c20.replay(a.path)
            from dsim import c12
            return c12.replay(a.path)
        if a.cmd == 'selftest':
            from dsim import selftest
            return selftest.main(a.what, seed, a.n)
    except HarnessError as e:
        print('HARNESS-ERROR: %s' % e, flush=True)
        return 2
    except Exception:
        traceback.print_exc()
        print('HARNESS-ERROR: unexpected exception', flush=True)
        return 2


if __name__ == '__main__':
    sys.exit(main())
